"""C10 - Python message API keeps every reachable message state valid (stateful, model based).

Hypothesis RuleBasedStateMachine: a schema and a root type are drawn at initialisation; every rule walks to a
random composite inside the *model* tree, picks a field and an operation the container offers, draws arguments
from valid / boundary / out-of-range / wrongly typed pools, applies the operation to the real message and to a
plain dict/list reference model, and compares outcome and state.
invariant after every step: snapshot(real) == model; encode('<'|'>') equals RefWire(model) (ProphyError only for
unequal lengths of arrays sharing a sizer).
"""
import time

import hypothesis
from hypothesis import strategies as st
from hypothesis.stateful import RuleBasedStateMachine, rule, initialize, invariant, run_state_machine_as_test

from vlib import gen, ir, pyh, runner, common
from vlib.ir import (NUMERIC, Enum, Struct, Union, PLAIN, OPT, FIXARR, DYNARR, LIMARR, GREEDY, EXTARR)
from vlib.refwire import RefWire
from vlib.runner import Violation

ID = 'C10'
LEVEL = 'exploration'
RULE = ("cases = operation sequences (<= 30 / 60 steps) on a message of a generated schema; operations: scalar / "
        "enum / bytes assignment, optional set and clear, discriminator switch by number and name, access to a "
        "non-discriminated arm, assignment to composite / array fields, append / insert / extend (list, tuple, "
        "generator) / remove / item and slice assignment / deletion, add(**kw), extend by messages; arguments from "
        "valid, boundary, out-of-range and wrongly typed pools; non-trivial = the sequence contains a rejected "
        "operation, or a structural operation (slice / delete / extend / arm switch / optional reset) after an "
        "earlier mutation; distinct = distinct hash of (schema text, operation log)")
ASSUME = ["reference model: dict/list tree with the rules of docs/python_codec.rst and the _check contracts",
          "where the documentation is silent on accept-vs-reject (bool for int, int for float) such arguments are "
          "not generated", "NaN is not generated", "a non-message element given to a composite array's extend() is "
          "refused with TypeError (pinned by the suite: test_array_bound) - the state must still be unchanged", "non-fixed bytes fields are excluded while finding P3 is open"]

LISTY = (IndexError, ValueError)


class _Hang(BaseException):
    pass


def with_watchdog(fn, seconds=5):
    """Run fn under a SIGALRM watchdog: an operation that does not terminate becomes a failure, not a stuck check."""
    import signal

    def on_alarm(signum, frame):
        raise _Hang()
    old = signal.signal(signal.SIGALRM, on_alarm)
    # repeating: an exception raised while a gc callback or __del__ runs is swallowed by the interpreter
    signal.setitimer(signal.ITIMER_REAL, seconds, 0.05)
    try:
        return fn()
    except _Hang:
        raise RuntimeError('operation did not terminate within %d s' % seconds)
    finally:
        signal.setitimer(signal.ITIMER_REAL, 0)
        signal.signal(signal.SIGALRM, old)


def prophy_error():
    pyh.setup_repo()
    import prophy
    return prophy.ProphyError


class Ctx(object):
    """Schema-aware reference model operations."""

    def __init__(self, schema):
        self.s = schema
        self.rw = RefWire(schema)

    def kind_of(self, tname):
        t = self.s.resolve(tname)
        if isinstance(t, str):
            return 'float' if NUMERIC[t][2] else 'int'
        if isinstance(t, Enum):
            return 'enum'
        return 'composite'

    def check_scalar(self, tname, v):
        """-> (accepted?, stored value) per the documented _check contracts"""
        t = self.s.resolve(tname)
        if isinstance(t, str):
            size, code, isf, lo, hi = NUMERIC[t]
            if isf:
                if isinstance(v, bool) or not isinstance(v, (int, float)):
                    return False, None
                try:     # in range = convertible to an IEEE-754 number of the field's width
                    import struct as _s
                    _s.pack('<' + code, v)
                except (OverflowError, _s.error):
                    return False, None
                return True, v
            if isinstance(v, bool) or not isinstance(v, int):
                return False, None
            if not lo <= v <= hi:
                return False, None
            return True, v
        if isinstance(t, Enum):
            if isinstance(v, str):
                for n, val, _ in t.members:
                    if n == v:
                        return True, val
                return False, None
            if isinstance(v, bool) or not isinstance(v, int):
                return False, None
            if v in [m[1] for m in t.members]:
                return True, v
            return False, None
        raise AssertionError(t)


# ---------------------------------------------------------------------------------------- argument pools
def scalar_args(ctx, tname):
    t = ctx.s.resolve(tname)
    wrong = st.sampled_from([None, 'x', b'\x01', [1], 1.5j])
    if isinstance(t, str):
        size, code, isf, lo, hi = NUMERIC[t]
        if isf:
            if t == 'r32':
                good = st.one_of(st.floats(width=32, allow_nan=False, allow_infinity=False), st.integers(-1000, 1000))
                huge = st.sampled_from([1e39, -1e39, 1e300, 10 ** 40])
                return st.one_of(good, good, huge, wrong)
            good = st.one_of(st.floats(allow_nan=False), st.integers(-10 ** 6, 10 ** 6))
            return st.one_of(good, good, st.just(10 ** 400), wrong)
        good = gen._int_strategy(t)
        bad = st.sampled_from([lo - 1, hi + 1, lo - 12345, hi * 2 + 7, 1.0, 2.5])
        return st.one_of(good, good, good, bad, wrong)
    if isinstance(t, Enum):
        names = [m[0] for m in t.members]
        vals = [m[1] for m in t.members]
        return st.one_of(st.sampled_from(vals), st.sampled_from(names),
                         st.sampled_from(['nope', -1, 1 << 33, 2.0, None, b'E']), st.integers(0, 10))
    raise AssertionError(t)


def bytes_args(m):
    n = m.size if m.size else 6
    return st.one_of(st.binary(max_size=n), st.binary(min_size=n, max_size=n), st.binary(min_size=n + 1, max_size=n + 4),
                     st.sampled_from(['text', 7, None, [1, 2]]))


class Machine(RuleBasedStateMachine):
    opts = None
    stats = None

    def __init__(self):
        RuleBasedStateMachine.__init__(self)
        self.log = []
        self.ready = False
        self.rejected = 0
        self.structural_after_mutation = 0
        self.mutations = 0

    # ------------------------------------------------------------------ setup
    @initialize(schema=gen.schemas(gen.GenOpts()), data=st.data())
    def setup(self, schema, data):
        # the strategy above is replaced per run through Machine.schema_strategy (see make_machine)
        raise AssertionError("replaced")

    def _setup(self, schema, data):
        self.schema = schema
        self.ctx = Ctx(schema)
        self.text = schema.to_prophy()
        comps = schema.composites()
        self.root = data.draw(st.sampled_from(comps[-3:]), label='root').name
        try:
            self.codec = pyh.PyCodec(schema, self.text)
        except Exception as ex:
            self.ready = False
            self.stats.notes['schema_not_usable(%s)' % type(ex).__name__] += 1
            return
        self.real = self.codec.new(self.root)
        self.model = self.to_model(self.root, self.ctx.rw.default(self.root))
        self.ready = True
        self.PE = prophy_error()

    # ------------------------------------------------------------------ walking
    def walk(self, data):
        """-> (model node, real node, type decl) of a random composite reachable in the model."""
        mnode, rnode, t = self.model, self.real, self.schema.resolve(self.root)
        path = []
        for _ in range(6):
            children = []
            if isinstance(t, Struct):
                sizers = t.sizers()
                for m in t.members:
                    if m.name in sizers or m.is_bytes or not self.schema.is_composite(m.type):
                        continue
                    if m.kind == PLAIN:
                        children.append((m.name, None))
                    elif m.kind == OPT:
                        if mnode[m.name] is not None:
                            children.append((m.name, None))
                    else:
                        for i in range(len(mnode[m.name])):
                            children.append((m.name, i))
            else:
                arm = next(a for a in t.arms if a.name == mnode[0])
                if self.schema.is_composite(arm.type):
                    children.append((arm.name, None))
            if not children or data.draw(st.integers(0, 2), label='descend?') == 0:
                break
            name, idx = data.draw(st.sampled_from(children), label='child')
            path.append((name, idx))
            if isinstance(t, Struct):
                m = next(x for x in t.members if x.name == name)
                mnode = mnode[name] if idx is None else mnode[name][idx]
                rnode = getattr(rnode, name) if idx is None else getattr(rnode, name)[idx]
                t = self.schema.resolve(m.type)
            else:
                arm = next(a for a in t.arms if a.name == name)
                # union model node is a list [arm, value]
                mnode = mnode[1]
                rnode = getattr(rnode, name)
                t = self.schema.resolve(arm.type)
        return mnode, rnode, t, path

    # ------------------------------------------------------------------ applying
    def apply(self, desc, real_op, model_op, expect, allowed=()):
        """expect: 'ok' | 'reject'.  allowed: extra exception types a rejection may use (list-style)."""
        self.log.append(desc)
        try:
            real_op()
            raised = None
        except Exception as ex:
            raised = ex
        if expect == 'ok':
            if raised is not None:
                self.fail("operation the reference model accepts raised %s: %s" % (type(raised).__name__, raised),
                          {'exception': common.exc_info(raised)})
            model_op()
        else:
            self.rejected += 1
            if raised is None:
                self.fail("operation the reference model rejects was accepted", {})
            if not isinstance(raised, (self.PE,) + tuple(allowed)):
                self.fail("rejected operation raised %s instead of ProphyError%s: %s" % (
                    type(raised).__name__, '/IndexError/ValueError' if allowed else '', raised),
                    {'exception': common.exc_info(raised)})

    def fail(self, what, details):
        payload = common.case_payload(self.schema, self.root, None, details)
        payload['operations'] = list(self.log)
        raise Violation(what, payload)

    def structural(self):
        if self.mutations:
            self.structural_after_mutation += 1
        self.mutations += 1

    # ------------------------------------------------------------------ rules
    @rule(data=st.data())
    def struct_field_op(self, data):
        if not self.ready:
            return
        mnode, rnode, t, path = self.walk(data)
        if isinstance(t, Union):
            return self.union_op(data, mnode, rnode, t, path)
        sizers = t.sizers()
        m = data.draw(st.sampled_from([x for x in t.members]), label='member')
        where = '/'.join('%s%s' % (n, '' if i is None else '[%d]' % i) for n, i in path) + '.' + m.name
        if m.name in sizers:
            # the sizer of an externally sized array is derived from the array: it is not an assignable attribute
            v = data.draw(st.integers(0, 5), label='sizer value')
            def op():
                setattr(rnode, m.name, v)
            try:
                op()
            except Exception as ex:
                if not isinstance(ex, (self.PE, AttributeError)):
                    self.fail("assigning a sizer raised %s" % type(ex).__name__, {})
                self.log.append('%s = %r  -> rejected' % (where, v))
                return
            self.fail("assignment to the sizer field %s was accepted" % where, {})
        comp = (not m.is_bytes) and self.schema.is_composite(m.type)
        if m.is_bytes:
            v = data.draw(bytes_args(m), label='bytes value')
            ok = isinstance(v, bytes) and (m.kind not in (FIXARR, LIMARR) or len(v) <= m.size)
            stored = v.ljust(m.size, b'\x00') if ok and m.kind == FIXARR else v
            self.mutations += 1
            self.apply('%s = %r' % (where, v), lambda: setattr(rnode, m.name, v),
                       lambda: mnode.__setitem__(m.name, stored), 'ok' if ok else 'reject')
        elif m.kind == PLAIN and not comp:
            v = data.draw(scalar_args(self.ctx, m.type), label='scalar value')
            ok, stored = self.ctx.check_scalar(m.type, v)
            self.mutations += 1
            self.apply('%s = %r' % (where, v), lambda: setattr(rnode, m.name, v),
                       lambda: mnode.__setitem__(m.name, stored), 'ok' if ok else 'reject')
        elif m.kind == PLAIN and comp:
            v = data.draw(st.sampled_from([None, True, 5, 'x']), label='composite assignment')
            self.apply('%s = %r' % (where, v), lambda: setattr(rnode, m.name, v), None, 'reject')
        elif m.kind == OPT and not comp:
            v = data.draw(st.one_of(st.none(), scalar_args(self.ctx, m.type)), label='optional scalar value')
            if v is None:
                self.structural()
                self.apply('%s = None' % where, lambda: setattr(rnode, m.name, None),
                           lambda: mnode.__setitem__(m.name, None), 'ok')
            else:
                ok, stored = self.ctx.check_scalar(m.type, v)
                self.mutations += 1
                self.apply('%s = %r' % (where, v), lambda: setattr(rnode, m.name, v),
                           lambda: mnode.__setitem__(m.name, stored), 'ok' if ok else 'reject')
        elif m.kind == OPT and comp:
            v = data.draw(st.sampled_from([True, True, None, None, False, 1, 'x', 0]), label='optional composite')
            if v is True:
                self.structural()
                self.apply('%s = True' % where, lambda: setattr(rnode, m.name, True),
                           lambda: mnode.__setitem__(m.name, self.fresh(m.type)), 'ok')
            elif v is None:
                self.structural()
                self.apply('%s = None' % where, lambda: setattr(rnode, m.name, None),
                           lambda: mnode.__setitem__(m.name, None), 'ok')
            else:
                self.apply('%s = %r' % (where, v), lambda: setattr(rnode, m.name, v), None, 'reject')
        else:
            self.array_op(data, mnode, rnode, t, m, where, comp)

    def fresh(self, tname):
        v = self.ctx.rw.default(tname)
        return self.to_model(tname, v)

    def to_model(self, tname, v):
        """RefWire default trees use tuples for unions; the model uses mutable lists."""
        t = self.schema.resolve(tname)
        if isinstance(t, Union):
            arm = next(a for a in t.arms if a.name == v[0])
            return [v[0], self.to_model(arm.type, v[1])]
        if isinstance(t, Struct):
            out = {}
            for m in t.members:
                if m.name not in v:
                    continue
                x = v[m.name]
                if m.is_bytes or not self.schema.is_composite(m.type):
                    out[m.name] = list(x) if isinstance(x, list) else x
                elif m.kind == PLAIN:
                    out[m.name] = self.to_model(m.type, x)
                elif m.kind == OPT:
                    out[m.name] = None if x is None else self.to_model(m.type, x)
                else:
                    out[m.name] = [self.to_model(m.type, e) for e in x]
            return out
        return v

    def from_model(self, tname, v):
        t = self.schema.resolve(tname)
        if isinstance(t, Union):
            arm = next(a for a in t.arms if a.name == v[0])
            return (v[0], self.from_model(arm.type, v[1]))
        if isinstance(t, Struct):
            out = {}
            for m in t.members:
                if m.name not in v:
                    continue
                x = v[m.name]
                if m.is_bytes or not self.schema.is_composite(m.type):
                    out[m.name] = list(x) if isinstance(x, list) else x
                elif m.kind == PLAIN:
                    out[m.name] = self.from_model(m.type, x)
                elif m.kind == OPT:
                    out[m.name] = None if x is None else self.from_model(m.type, x)
                else:
                    out[m.name] = [self.from_model(m.type, e) for e in x]
            return out
        return v

    def union_op(self, data, mnode, rnode, t, path):
        where = '/'.join('%s%s' % (n, '' if i is None else '[%d]' % i) for n, i in path) or '<root>'
        cur = next(a for a in t.arms if a.name == mnode[0])
        choice = data.draw(st.integers(0, 5), label='union op')
        if choice <= 1:
            arm = data.draw(st.sampled_from(t.arms), label='arm')
            by = arm.disc if choice == 0 else arm.name
            self.structural()

            def mop():
                if arm.name != mnode[0]:
                    mnode[0] = arm.name
                    mnode[1] = self.fresh(arm.type) if self.schema.is_composite(arm.type) else self.ctx.rw.default(arm.type)
            self.apply('%s.discriminator = %r' % (where, by), lambda: setattr(rnode, 'discriminator', by), mop, 'ok')
        elif choice == 2:
            known = set(a.disc for a in t.arms) | set(a.name for a in t.arms)
            bad = data.draw(st.sampled_from([-1, 1 << 33, 'nope', None, 2.5, 7, 11, 99]), label='bad discriminator')
            if bad in known:
                return
            self.apply('%s.discriminator = %r' % (where, bad), lambda: setattr(rnode, 'discriminator', bad), None,
                       'reject')
        elif choice == 3:
            if self.schema.is_composite(cur.type):
                self.apply('%s.%s = 5' % (where, cur.name), lambda: setattr(rnode, cur.name, 5), None, 'reject')
            else:
                v = data.draw(scalar_args(self.ctx, cur.type), label='arm value')
                ok, stored = self.ctx.check_scalar(cur.type, v)
                self.mutations += 1
                self.apply('%s.%s = %r' % (where, cur.name, v), lambda: setattr(rnode, cur.name, v),
                           lambda: mnode.__setitem__(1, stored), 'ok' if ok else 'reject')
        else:
            others = [a for a in t.arms if a.name != cur.name]
            if not others:
                return
            arm = data.draw(st.sampled_from(others), label='other arm')
            if choice == 4:
                self.apply('read %s.%s (not discriminated)' % (where, arm.name), lambda: getattr(rnode, arm.name),
                           None, 'reject')
            else:
                self.apply('%s.%s = 1 (not discriminated)' % (where, arm.name), lambda: setattr(rnode, arm.name, 1),
                           None, 'reject')

    # ------------------------------------------------------------------ arrays
    def array_op(self, data, mnode, rnode, t, m, where, comp):
        arr = getattr(rnode, m.name)
        lst = mnode[m.name]
        limit = m.size if m.kind == LIMARR else None
        if data.draw(st.integers(0, 9), label='assign to array field?') == 0:
            self.apply('%s = [..]' % where, lambda: setattr(rnode, m.name, [1]), None, 'reject')
            return
        idx_st = st.integers(-len(lst) - 2, len(lst) + 2)
        slice_st = st.builds(slice, st.one_of(st.none(), idx_st), st.one_of(st.none(), idx_st),
                             st.sampled_from([None, None, None, 1, 2, -1, 3]))
        if comp:
            if m.kind == FIXARR:
                return      # fixed composite arrays offer item access only; elements are reached by walk()
            op = data.draw(st.sampled_from(['add', 'add_kw', 'extend', 'delitem', 'delslice']), label='array op')
            if op == 'add':
                full = limit is not None and len(lst) >= limit
                self.structural()
                self.apply('%s.add()' % where, lambda: arr.add(), lambda: lst.append(self.fresh(m.type)),
                           'reject' if full else 'ok')
            elif op == 'add_kw':
                et = self.schema.resolve(m.type)
                if not isinstance(et, Struct):
                    return
                cands = [x for x in et.members if x.kind == PLAIN and not x.is_bytes and
                         not self.schema.is_composite(x.type) and x.name not in et.sizers()]
                if not cands:
                    return
                fm = data.draw(st.sampled_from(cands), label='kw field')
                v = data.draw(scalar_args(self.ctx, fm.type), label='kw value')
                ok, stored = self.ctx.check_scalar(fm.type, v)
                full = limit is not None and len(lst) >= limit
                self.structural()

                def mop():
                    e = self.fresh(m.type)
                    e[fm.name] = stored
                    lst.append(e)
                self.apply('%s.add(%s=%r)' % (where, fm.name, v), lambda: arr.add(**{fm.name: v}), mop,
                           'ok' if (ok and not full) else 'reject')
            elif op == 'extend':
                k = data.draw(st.integers(0, 3), label='extend count')
                pairs = [self.value_for(data, m.type) for _ in range(k)]
                vals = [p[0] for p in pairs]
                # built from the *raw* values: fields and union arms the generator left unset stay unassigned in the
                # argument (a switched discriminator with a never-touched arm, a never-read nested struct)
                msgs = [self.codec.build(self.schema.resolve(m.type).name, p[1]) for p in pairs]
                too_many = limit is not None and len(lst) + k > limit
                self.structural()
                how = data.draw(st.sampled_from(['list', 'list', 'tuple', 'generator', 'self', 'bad_element']),
                                label='extend argument')
                if how == 'self':
                    # the array itself as the argument (list semantics: the elements once more)
                    import copy
                    too_many = limit is not None and 2 * len(lst) > limit
                    hung = []

                    def self_extend():
                        try:
                            with_watchdog(lambda: arr.extend(arr), 1)
                        except RuntimeError:
                            hung.append(len(arr))
                            del arr[:]
                    desc = '%s.extend(%s)' % (where, where)
                    self.apply(desc, self_extend, lambda: lst.extend(copy.deepcopy(lst)), 'reject' if too_many else 'ok')
                    if hung:
                        # recorded directly (not raised): shrinking a failure that costs a second and a million
                        # objects per attempt would take the shrinker's whole budget in every worker
                        if not any('did not terminate' in v['what'] for v in self.stats.violations):
                            payload = common.case_payload(self.schema, self.root, None, {'array length reached': hung[0]})
                            payload['operations'] = list(self.log)
                            self.stats.violations.append({'what': '%s did not terminate within 1 s (array grew to %d '
                                                          'elements)' % (desc, hung[0]), 'case': payload})
                        self.ready = False
                elif how == 'bad_element':
                    # a non-message among the messages: refused as a whole (TypeError is what the suite pins for it)
                    pos = data.draw(st.integers(0, k), label='bad position')
                    bad = data.draw(st.sampled_from([5, None, 'x', b'', 1.5]), label='bad element')
                    arg = msgs[:pos] + [bad] + msgs[pos:]
                    self.apply('%s.extend(<%d messages with %r at %d>)' % (where, k, bad, pos), lambda: arr.extend(arg),
                               None, 'reject', (TypeError,))
                else:
                    arg = {'list': lambda: msgs, 'tuple': lambda: tuple(msgs), 'generator': lambda: (x for x in msgs)}[how]()
                    self.apply('%s.extend(<%d messages as %s>)' % (where, k, how), lambda: arr.extend(arg),
                               lambda: lst.extend(vals), 'reject' if too_many else 'ok')
            elif op == 'delitem':
                i = data.draw(idx_st, label='index')
                inrange = -len(lst) <= i < len(lst)
                self.structural()
                self.apply('del %s[%d]' % (where, i), lambda: arr.__delitem__(i), lambda: lst.__delitem__(i),
                           'ok' if inrange else 'reject', LISTY)
            else:
                sl = data.draw(slice_st, label='slice')
                self.structural()
                self.apply('del %s[%r:%r:%r]' % (where, sl.start, sl.stop, sl.step), lambda: arr.__delitem__(sl),
                           lambda: lst.__delitem__(sl), 'ok')
            return
        # ---- scalar arrays
        base = self.schema.resolve(m.type)
        good = (gen._int_strategy(base) if isinstance(base, str) and not NUMERIC[base][2] else
                st.sampled_from([x[1] for x in base.members]) if isinstance(base, Enum) else
                st.floats(width=32, allow_nan=False, allow_infinity=False))
        # mostly all-valid lists (sized around the limit), sometimes lists holding bad elements
        evals = st.one_of(st.lists(good, max_size=(limit or 4) + 2), st.lists(good, max_size=(limit or 4) + 2),
                          st.lists(scalar_args(self.ctx, m.type), max_size=4))

        def checked(values):
            out = []
            for v in values:
                ok, stored = self.ctx.check_scalar(m.type, v)
                if not ok:
                    return None
                out.append(stored)
            return out
        def over_cap(n):
            # open finding P6b (reproduced separately): an array bound to a sizer is not grown beyond the sizer's range
            if m.kind != EXTARR or 'ext_array_beyond_sizer_range' not in self.opts.avoid:
                return False
            sm_ = next(x for x in t.members if x.name == m.sizer)
            return n > NUMERIC[self.schema.resolve(sm_.type)][4]
        if m.kind == FIXARR:
            op = data.draw(st.sampled_from(['setitem', 'setslice', 'setslice_from_array']), label='array op')
        else:
            op = data.draw(st.sampled_from(['append', 'insert', 'extend', 'extend_tuple', 'extend_gen', 'remove',
                                            'setitem', 'setslice', 'delitem', 'delslice', 'extend_many',
                                            'extend_from_array', 'setslice_from_array']),
                           label='array op')
        if op in ('extend_from_array', 'setslice_from_array'):
            # the argument is another prophy array of the message (any element type): its items must be validated
            # against *this* array's element type like the items of any other iterable
            sources = self.scalar_arrays()
            if not sources:
                return
            sname, sreal, smodel = data.draw(st.sampled_from(sources), label='source array')
            vals = list(smodel)
            stored = checked(vals)
            if op == 'extend_from_array':
                ok = stored is not None and (limit is None or len(lst) + len(vals) <= limit)
                if m.kind == EXTARR and 'ext_array_beyond_sizer_range' in self.opts.avoid:
                    sm = next(x for x in t.members if x.name == m.sizer)
                    if len(lst) + len(vals) > NUMERIC[self.schema.resolve(sm.type)][4]:
                        return
                self.structural()
                self.apply('%s.extend(<array %s = %r>)' % (where, sname, vals), lambda: arr.extend(sreal),
                           lambda: lst.extend(stored), 'ok' if ok else 'reject')
            else:
                sl = data.draw(slice_st.filter(lambda x: x.step in (None, 1)), label='slice')
                cur = len(lst[sl])
                if m.kind == FIXARR:
                    ok = stored is not None and len(vals) == cur
                else:
                    ok = stored is not None and (limit is None or len(lst) + len(vals) - cur <= limit)
                    if ok and m.kind == EXTARR and 'ext_array_beyond_sizer_range' in self.opts.avoid:
                        sm = next(x for x in t.members if x.name == m.sizer)
                        if len(lst) + len(vals) - cur > NUMERIC[self.schema.resolve(sm.type)][4]:
                            return
                snapshot_vals = list(stored) if stored is not None else None
                self.structural()
                self.apply('%s[%r:%r] = <array %s = %r>' % (where, sl.start, sl.stop, sname, vals),
                           lambda: arr.__setitem__(sl, sreal), lambda: lst.__setitem__(sl, snapshot_vals),
                           'ok' if ok else 'reject')
            return
        if op == 'extend_many':
            # more elements than a narrow (8-bit) sizer can count
            k = data.draw(st.sampled_from([100, 130, 260]), label='many')
            vals = [self.ctx.rw.default(m.type)] * k
            ok = limit is None or len(lst) + k <= limit
            if m.kind == EXTARR and 'ext_array_beyond_sizer_range' in self.opts.avoid:
                sm = next(x for x in t.members if x.name == m.sizer)
                if len(lst) + k > NUMERIC[self.schema.resolve(sm.type)][4]:
                    return      # open finding P6b: reproduced separately in p6b_reproduction()
            self.structural()
            self.apply('%s.extend(<%d default elements>)' % (where, k), lambda: arr.extend(list(vals)),
                       lambda: lst.extend(vals), 'ok' if ok else 'reject')
            return
        if op == 'setitem':
            i = data.draw(idx_st, label='index')
            v = data.draw(scalar_args(self.ctx, m.type), label='value')
            ok, stored = self.ctx.check_scalar(m.type, v)
            inrange = -len(lst) <= i < len(lst)
            self.mutations += 1
            self.apply('%s[%d] = %r' % (where, i, v), lambda: arr.__setitem__(i, v),
                       lambda: lst.__setitem__(i, stored), 'ok' if (ok and inrange) else 'reject', LISTY)
        elif op == 'setslice':
            sl = data.draw(slice_st, label='slice')
            vals = data.draw(evals, label='values')
            stored = checked(vals)
            cur = len(lst[sl])
            extended = sl.step not in (None, 1)
            if m.kind == FIXARR or extended:
                ok = stored is not None and len(vals) == cur
            else:
                ok = stored is not None and (limit is None or len(lst) + len(vals) - cur <= limit)
                if ok and over_cap(len(lst) + len(vals) - cur):
                    return
            self.structural()
            self.apply('%s[%r:%r:%r] = %r' % (where, sl.start, sl.stop, sl.step, vals),
                       lambda: arr.__setitem__(sl, vals),
                       lambda: lst.__setitem__(sl, stored), 'ok' if ok else 'reject', LISTY if extended else ())
        elif op == 'append':
            v = data.draw(scalar_args(self.ctx, m.type), label='value')
            ok, stored = self.ctx.check_scalar(m.type, v)
            full = limit is not None and len(lst) >= limit
            if ok and over_cap(len(lst) + 1):
                return
            self.mutations += 1
            self.apply('%s.append(%r)' % (where, v), lambda: arr.append(v), lambda: lst.append(stored),
                       'ok' if (ok and not full) else 'reject')
        elif op == 'insert':
            i = data.draw(idx_st, label='index')
            v = data.draw(scalar_args(self.ctx, m.type), label='value')
            ok, stored = self.ctx.check_scalar(m.type, v)
            full = limit is not None and len(lst) >= limit
            if ok and over_cap(len(lst) + 1):
                return
            self.structural()
            self.apply('%s.insert(%d, %r)' % (where, i, v), lambda: arr.insert(i, v), lambda: lst.insert(i, stored),
                       'ok' if (ok and not full) else 'reject')
        elif op in ('extend', 'extend_tuple', 'extend_gen'):
            vals = data.draw(evals, label='values')
            stored = checked(vals)
            ok = stored is not None and (limit is None or len(lst) + len(vals) <= limit)
            if ok and over_cap(len(lst) + len(vals)):
                return
            arg = {'extend': lambda: list(vals), 'extend_tuple': lambda: tuple(vals),
                   'extend_gen': lambda: (x for x in vals)}[op]
            self.structural()
            self.apply('%s.%s(%r)' % (where, op, vals), lambda: arr.extend(arg()), lambda: lst.extend(stored),
                       'ok' if ok else 'reject')
        elif op == 'remove':
            v = data.draw(st.one_of(st.sampled_from(lst) if lst else st.just(0), scalar_args(self.ctx, m.type)),
                          label='element')
            try:
                present = v in lst
            except Exception:
                present = False
            self.structural()
            self.apply('%s.remove(%r)' % (where, v), lambda: arr.remove(v), lambda: lst.remove(v),
                       'ok' if present else 'reject', LISTY)
        elif op == 'delitem':
            i = data.draw(idx_st, label='index')
            inrange = -len(lst) <= i < len(lst)
            self.structural()
            self.apply('del %s[%d]' % (where, i), lambda: arr.__delitem__(i), lambda: lst.__delitem__(i),
                       'ok' if inrange else 'reject', LISTY)
        elif op == 'delslice':
            sl = data.draw(slice_st, label='slice')
            self.structural()
            self.apply('del %s[%r:%r:%r]' % (where, sl.start, sl.stop, sl.step), lambda: arr.__delitem__(sl),
                       lambda: lst.__delitem__(sl), 'ok')

    def scalar_arrays(self):
        """[(path text, real array, model list)] of every scalar (non-bytes) array reachable in the message."""
        out = []

        def visit(mnode, rnode, t, path):
            if isinstance(t, Union):
                arm = next(a for a in t.arms if a.name == mnode[0])
                if self.schema.is_composite(arm.type):
                    visit(mnode[1], getattr(rnode, arm.name), self.schema.resolve(arm.type), path + '/' + arm.name)
                return
            sizers = t.sizers()
            for m in t.members:
                if m.name in sizers or m.is_bytes:
                    continue
                comp = self.schema.is_composite(m.type)
                if m.kind in (FIXARR, DYNARR, LIMARR, GREEDY, EXTARR):
                    if not comp:
                        out.append((path + '.' + m.name, getattr(rnode, m.name), mnode[m.name]))
                    else:
                        for i, e in enumerate(mnode[m.name]):
                            visit(e, getattr(rnode, m.name)[i], self.schema.resolve(m.type), '%s/%s[%d]' % (path, m.name, i))
                elif comp and m.kind == PLAIN:
                    visit(mnode[m.name], getattr(rnode, m.name), self.schema.resolve(m.type), path + '/' + m.name)
                elif comp and m.kind == OPT and mnode[m.name] is not None:
                    visit(mnode[m.name], getattr(rnode, m.name), self.schema.resolve(m.type), path + '/' + m.name)
        visit(self.model, self.real, self.schema.resolve(self.root), '')
        return out[:12]

    def value_for(self, data, tname):
        """-> (model value, raw generated value with unset parts) of a composite type (for extend by messages)."""
        o = gen.GenOpts(allow_unset=True, avoid=self.opts.avoid)
        o.unset_bias = (3, 5)
        vg = gen.ValueGen(data.draw, self.schema, o, self.ctx.rw)
        raw = vg.value(tname)
        return self.to_model(tname, self.ctx.rw.normalize(tname, raw)), raw

    # ------------------------------------------------------------------ invariant
    @invariant()
    def agrees(self):
        if not self.ready:
            return
        want = self.from_model(self.root, self.model)
        try:
            got = self.codec.snapshot(self.root, self.real)
        except Exception as ex:
            self.fail("reading the message back raised %s: %s" % (type(ex).__name__, ex),
                      {'exception': common.exc_info(ex)})
        if not pyh.values_equal(got, want):
            self.fail("observable state differs from the reference model",
                      {'real': ir.value_to_json(got), 'model': ir.value_to_json(want)})
        mismatch = self.sizer_mismatch(self.root, want)
        for e in '<>':
            try:
                enc = self.real.encode(e)
            except self.PE as ex:
                if mismatch:
                    continue
                self.fail("a reachable message cannot be encoded: ProphyError: %s" % ex, {'model': ir.value_to_json(want)})
            except Exception as ex:
                self.fail("encode of a reachable message raised %s: %s" % (type(ex).__name__, ex),
                          {'exception': common.exc_info(ex), 'model': ir.value_to_json(want)})
            if mismatch:
                self.fail("arrays sharing a sizer have unequal lengths but encode succeeded", {})
            ref = self.ctx.rw.encode(self.root, want, e)[0]
            if enc != ref:
                self.fail("encode(%r) of the reachable state differs from the wire format" % e,
                          {'observed': enc.hex(), 'expected': ref.hex(), 'model': ir.value_to_json(want)})

    def sizer_mismatch(self, tname, v):
        t = self.schema.resolve(tname)
        if isinstance(t, Union):
            arm = next(a for a in t.arms if a.name == v[0])
            return self.schema.is_composite(arm.type) and self.sizer_mismatch(arm.type, v[1])
        if not isinstance(t, Struct):
            return False
        for sname, arrs in t.sizers().items():
            if len(set(len(v[a]) for a in arrs)) > 1:
                return True
        for m in t.members:
            if m.is_bytes or not self.schema.is_composite(m.type) or m.name not in v:
                continue
            x = v[m.name]
            if m.kind == PLAIN:
                if self.sizer_mismatch(m.type, x):
                    return True
            elif m.kind == OPT:
                if x is not None and self.sizer_mismatch(m.type, x):
                    return True
            elif any(self.sizer_mismatch(m.type, e) for e in x):
                return True
        return False

    def teardown(self):
        if self.ready and self.stats is not None:
            nontrivial = self.rejected > 0 or self.structural_after_mutation > 0
            classes = set()
            for l in self.log:
                for key in ('.append', '.insert', '.extend', '.remove', 'del ', '.add(', 'discriminator', '= None',
                            '= True', 'not discriminated', ':'):
                    if key in l:
                        classes.add('op:' + key.strip())
            if self.rejected:
                classes.add('has_rejected_op')
            self.stats.case((self.text, self.root, tuple(self.log)), nontrivial, classes,
                            sample=lambda: {'schema': self.text, 'root': self.root, 'operations': self.log[:40]})
            self.stats.notes['steps'] += len(self.log)


def make_machine(opts, stats):
    class M(Machine):
        pass
    M.opts = opts
    M.stats = stats

    @initialize(schema=gen.schemas(opts), data=st.data())
    def setup(self, schema, data):
        self._setup(schema, data)
    M.setup = setup
    # re-register rules on the subclass (hypothesis collects them from the class dict chain)
    return M


def gen_opts():
    avoid = common.avoid_set(ID)
    return gen.GenOpts(avoid=avoid, big_sizes=False, max_decls=5, allow_greedy=True, long_fixed_bias=8,
                       nonfixed_bytes=('unset_nonfixed_bytes' not in avoid))


def worker(widx, seed, tier, stats):
    n, steps = {'quick': (200, 30), 'thorough': (2500, 60)}[tier]
    M = make_machine(gen_opts(), stats)
    try:
        run_state_machine_as_test(hypothesis.seed(seed)(M), settings=runner.hyp_settings(n, True, steps))
    except Violation as v:
        stats.violations.append({'what': v.what, 'case': v.case})
    except (hypothesis.errors.Flaky, hypothesis.errors.FlakyFailure) as e:
        stats.errors.append('Flaky: %s' % str(e)[:1500])


def p3_reproduction(stats):
    """Open finding P3 is kept backed by a live reproduction (non-fixed bytes are excluded from the machine)."""
    if not runner.known_findings().is_open('P3', ID):
        return
    from vlib.ir import Schema, Member
    schema = Schema([Struct('S', [Member('b', 'bytes', DYNARR)])])
    codec = pyh.PyCodec(schema)
    try:
        codec.new('S').encode('<')
    except TypeError:
        stats.known_finding('P3', {'schema': schema.to_prophy(), 'operations': ['S().encode("<")']})
    except Exception:
        pass


def p6b_reproduction(stats):
    if not runner.known_findings().is_open('P6b', ID):
        return
    import struct as _s
    from vlib.ir import Schema, Member
    schema = Schema([Struct('S', [Member('n', 'i8'), Member('x', 'u8', EXTARR, sizer='n')])])
    codec = pyh.PyCodec(schema)
    msg = codec.new('S')
    msg.x.extend([0] * 130)
    try:
        msg.encode('<')
    except _s.error:
        stats.known_finding('P6b', {'schema': schema.to_prophy(), 'operations': ['x.extend([0]*130)', 'encode("<")']})
    except Exception:
        pass


def run(tier, seed):
    t0 = time.time()
    stats = runner.run_workers(__name__, 'worker', seed, tier)
    p3_reproduction(stats)
    p6b_reproduction(stats)
    return runner.finish(ID, tier, seed, LEVEL, RULE, stats, t0, ASSUME)


def replay(payload):
    print("operation log of the recorded violation:")
    for l in payload['case'].get('operations', []):
        print("   ", l)
    print("re-running the state machine with the recorded seed and tier (the run is a pure function of them):")
    return run(payload.get('tier', 'quick'), payload.get('seed', 1))
