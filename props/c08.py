"""C08 - raw C++ struct layout coincides with the wire layout.

generator : SchemaGen (all member kinds); one generated header per Hypothesis example (compile ~0.6 s, so the
            library's own shrinker is used); also schemas split over 2-4 files that include each other
oracle    : a generated program prints offsetof of every member (has_x, value, counters, first array element,
            discriminator, every arm, members of partN sub-structs relative to their part) and sizeof / alignof of
            every struct, part and union as evaluated by g++ on <schema>.pp.hpp; RefWire gives the expected numbers.
"""
import time

from vlib import gen, ir, pyh, cpph, runner, common
from vlib.ir import Struct, Union
from vlib.refwire import RefWire
from vlib.runner import Violation

ID = 'C08'
LEVEL = 'exploration'
RULE = ("cases = every struct / union of a generated schema, compiled by g++ from the header prophyc --cpp_out "
        "generates; each case compares all of its offsetof / sizeof / alignof facts with the documented wire layout; "
        "non-trivial = the type has padding, an optional, a union or more than one part; distinct = distinct hash of "
        "(schema text, type)")
ASSUME = ["GCC 12 x86-64 ABI (the platform available here)", "RefWire is a correct reading of docs/encoding.rst"]
NONTRIVIAL = {'optional', 'union', 'field_after_dynamic', 'pads'}


def check_schema(schema, stats=None, layout=None):
    """-> None | (what, details, type name)"""
    tu = cpph.RawTU(schema, sanitize=False, layout=layout)
    try:
        rows = tu.layout()
    finally:
        tu.cleanup()
    bad_by_type = {}
    for label, want, got in rows:
        tname = label.split('.')[0].split(':')[0]
        if want != got:
            bad_by_type.setdefault(tname, []).append({'fact': label, 'wire': want, 'cpp': got})
    if stats is not None:
        stats.notes['layout_facts'] += len(rows)
    if bad_by_type:
        tname = sorted(bad_by_type)[0]
        first = bad_by_type[tname][0]
        return ("raw C++ layout of %s differs from the wire layout: %s is %r, wire format says %r" % (
            tname, first['fact'], first['cpp'], first['wire']), {'mismatches': bad_by_type[tname][:8]}, tname)
    return None


def check_case(schema, tname, val):
    bad = check_schema(schema)
    return (bad[0], bad[1]) if bad else None


def type_feats(rw, c):
    feats = gen.schema_features(rw, c.name)
    if isinstance(c, Struct):
        pos = 0
        for f, block, off in rw.static_offsets(c):
            if off != pos and not (block > 0 and off == 0):
                feats.add('pads')
            pos = off + (rw._fixed_field_size(f) if not f.dynamic else 0)
            if f.dynamic:
                pos = 0
        size = rw.layout(c.name)[0]
        if size is not None and size != pos:
            feats.add('pads')
    return feats


def body(schema, stats):
    rw = RefWire(schema)
    text = schema.to_prophy()
    try:
        bad = check_schema(schema, stats)
    except (cpph.BuildFailed, pyh.CompileFailed) as ex:
        stats.notes['schema_build_failed'] += 1
        return
    for c in schema.composites():
        feats = type_feats(rw, c)
        stats.case((text, c.name), bool(feats & NONTRIVIAL), feats,
                   sample=lambda: {'schema': text, 'type': c.name, 'wire(size,align,stiffness)': list(rw.layout(c.name))})
    if bad:
        fid = common.classify_known(ID, schema, rw, bad[2], None, bad)
        if fid:
            stats.known_finding(fid, {'schema': text, 'type': bad[2]})
            return
        raise Violation(bad[0], common.case_payload(schema, bad[2], None, bad[1]))


def multifile_body(lay, stats):
    """The same facts for a schema spread over several files that include each other (one prophyc run, the driver
    includes every generated header)."""
    schema = lay.schema
    rw = RefWire(schema)
    try:
        bad = check_schema(schema, stats, layout=lay)
    except (cpph.BuildFailed, pyh.CompileFailed) as ex:
        stats.notes['multifile_build_failed'] += 1
        return
    desc = lay.describe()
    for c in schema.composites():
        feats = type_feats(rw, c) | {'multifile', 'files=%d' % lay.nfiles}
        stats.case((str(desc), c.name), bool(feats & NONTRIVIAL), feats,
                   sample=lambda: {'layout': desc, 'type': c.name})
    if bad:
        fid = common.classify_known(ID, schema, rw, bad[2], None, bad)
        if fid:
            stats.known_finding(fid, {'layout': desc, 'type': bad[2]})
            return
        payload = common.case_payload(schema, bad[2], None, bad[1])
        payload['layout'] = desc
        raise Violation(bad[0] + ' [schema split over %d files]' % lay.nfiles, payload)


def worker(widx, seed, tier, stats):
    n = {'quick': 14, 'thorough': 400}[tier]
    opts = gen.GenOpts(avoid=common.avoid_set(ID), max_decls=10, alias_focus=4, tail_focus=6, block_focus=6)
    runner.run_given(gen.schemas(opts), body, seed, n, stats)
    if opts.avoid and widx < 2:
        runner.run_given(gen.schemas(gen.GenOpts(max_decls=10)), body, seed + 1, 6, stats)
    if not stats.violations:
        from vlib import multifile
        mo = gen.GenOpts(avoid=common.avoid_set(ID), min_decls=5, max_decls=10, big_sizes=False, const_exprs=True)
        runner.run_given(multifile.layouts(mo, min_files=2, max_files=4), multifile_body, seed + 2,
                         {'quick': 4, 'thorough': 100}[tier], stats, shrink=(tier == 'thorough'))


def run(tier, seed):
    t0 = time.time()
    stats = runner.run_workers(__name__, 'worker', seed, tier)
    common.run_regress(ID, stats, check_case)
    return runner.finish(ID, tier, seed, LEVEL, RULE, stats, t0, ASSUME)


def replay(payload):
    schema, tname, val = common.case_from_payload(payload)
    bad = check_case(schema, tname, val)
    if bad:
        print("VIOLATION property=%s replay=(given)\n  %s\n  %s" % (ID, bad[0], ir.dumps(bad[1])))
        return 1
    print("replay: property holds on this case")
    return 0
