"""C03 - Python and generated C++ full codec are wire-compatible for every message.

generator : SchemaGen(cpp_full_ok) x ValueGen; several schemas per translation unit
oracle    : for the canonical RefWire bytes and the bytes the Python codec produced:
            C++ decode<E> succeeds, encode<E>() of the decoded object is identical; native == little.
"""
import time

from vlib import gen, cppcamp, runner, common

ID = 'C03'
LEVEL = 'exploration'
RULE = ("cases = (generated schema accepted by the C++ full generator, composite type, generated value, byte order "
        "in {little, big, native}); input = canonical reference bytes and the Python codec's bytes; C++ driver "
        "compiled with ASan+UBSan from the working tree's generator and headers; non-trivial = type has padding, "
        "an optional, union, limited array, a field after a dynamic field or a nested composite; distinct = "
        "distinct hash of (schema text, type, value, byte order, input)")
ASSUME = ["g++ 12, x86-64, little-endian host (native == little)", "NaN floats are not generated",
          "greedy tails are constructed to end aligned",
          "buffers handed to the C++ codec are 8-aligned heap blocks (its alignment arithmetic works on addresses)",
          "arrays bound to a sizer hold no more elements than the sizer type can count"]


class Campaign(cppcamp.FullCampaign):
    prop = ID
    nontrivial = frozenset({'has_padding', 'optional', 'union', 'limited', 'field_after_dynamic', 'nested_composite'})

    def vectors(self, rw, py, tname, val):
        out = []
        for e in '<>':
            canon = rw.encode(tname, val, e)[0]
            out.append(('canonical', 'dec', e, canon, 0))
            if py is not None:
                try:
                    pb = py.build(tname, val).encode(e)
                    if pb != canon:
                        out.append(('python', 'dec', e, pb, 0))
                except Exception:
                    pass
        out.append(('canonical-native', 'dec', '=', rw.encode(tname, val, '<')[0], 0))
        return out

    def judge(self, rw, tname, val, vec, res):
        label, op, e, data, k = vec
        if 'crash' in res:
            return ("C++ full codec died on valid bytes: %s" % res['crash'], {'stderr': res.get('stderr', '')[-1500:]})
        if not res.get('ok'):
            return ("C++ decode refused valid bytes", {})
        enc = res['encB'] if e == '>' else (res['encL'] if e == '<' else res['encN'])
        if enc != data:
            return ("C++ re-encode differs from the bytes it decoded", {'reencoded': enc.hex()})
        if res['encN'] != res['encL']:
            return ("C++ native encoding differs from little-endian on a little-endian host",
                    {'native': res['encN'].hex(), 'little': res['encL'].hex()})
        if op == 'dec' and 'rok' in res and (not res['rok'] or res['rencL'] != res['encL']):
            # the same valid bytes decoded into an object that already held another message of this type
            return ("C++ decode of valid bytes into a previously used object %s" % (
                "yields a different message" if res['rok'] else "is refused"),
                {'reused_reencoded': res.get('rencL', b'').hex(), 'fresh_reencoded': res['encL'].hex()})
        return None


CAMPAIGN = Campaign()
check_case = CAMPAIGN.check_case


def python_pre_pass(case, stats):
    """Either language reads what the other wrote only if both write the documented bytes: for many more cases than
    can be compiled in C++, the Python codec's bytes are compared with the canonical ones (a difference is then also
    handed to the C++ decoder by the campaign, where that case is drawn)."""
    from vlib import pyh
    from vlib.refwire import RefWire
    schema, cases = case
    rw = RefWire(schema)
    try:
        codec = pyh.PyCodec(schema)
    except Exception:
        return
    for tname, val in cases:
        for e in '<>':
            try:
                pb = codec.build(tname, val).encode(e)
            except Exception:
                continue        # C01's business
            canon = rw.encode(tname, val, e)[0]
            stats.notes['python_pre_pass'] += 1
            if pb != canon:
                fid = common.classify_known(ID, schema, rw, tname, val, ('python bytes differ', {}))
                if fid:
                    continue
                raise runner.Violation("the Python codec writes other bytes than the documented format that the C++ codec "
                                       "reads (%s, byte order %s)" % (tname, e),
                                       common.case_payload(schema, tname, val, {'python': pb.hex(), 'canonical': canon.hex()}))


def worker(widx, seed, tier, stats):
    from vlib import gen
    runner.run_given(gen.schema_with_values(CAMPAIGN.gen_opts()), python_pre_pass, seed + 7,
                     {'quick': 60, 'thorough': 400}[tier], stats)
    if not stats.violations:
        CAMPAIGN.worker(widx, seed, tier, stats, {'quick': 2, 'thorough': 40}[tier])


def run(tier, seed):
    t0 = time.time()
    stats = runner.run_workers(__name__, 'worker', seed, tier)
    common.run_regress(ID, stats, check_case)
    return runner.finish(ID, tier, seed, LEVEL, RULE, stats, t0, ASSUME)


def replay(payload):
    return CAMPAIGN.replay(payload)
