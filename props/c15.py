"""C15 - definition order does not matter: output is dependency-ordered and complete (isar).

generator : acyclic definition sets (constants with expressions over other constants and enumerators, enums whose
            values use constants / other enumerators, typedef chains, structs, unions) rendered as isar XML in a
            permuted element order.  Sets of <= 5 definitions are run under *all* permutations (exhaustive small
            scope); larger sets under generated permutations.
oracle    : node list returned by prophyc.main holds every definition exactly once and after everything it depends
            on (dependencies computed from the IR); the generated Python module imports; per-type (size, alignment,
            stiffness) is identical across permutations and equal to RefWire.  A watchdog catches non-termination.
"""
import itertools
import os
import shutil
import signal
import time

from hypothesis import strategies as st

from vlib import gen, ir, pyh, cpph, runner, common
from vlib.ir import Const, Enum, Typedef, Struct, Union, Schema
from vlib.refwire import RefWire
from vlib.runner import Violation

ID = 'C15'
LEVEL = 'exploration'
RULE = ("cases = (generated acyclic definition set, permutation of its XML elements); all permutations for sets of "
        "<= 5 definitions, generated permutations for larger sets; non-trivial = the permuted order (after isar's "
        "grouping by element kind) is not already a valid dependency order; distinct = distinct hash of "
        "(definition set, permutation)")
ASSUME = ["dependencies are computed from the IR: member / typedef / arm types and every name inside constant, "
          "enumerator, array-size and discriminator expressions (an enumerator maps to its enum)",
          "sack (C++) input is not covered: C++ itself forces declaration before use"]
WATCHDOG_S = 30
KIND_ORDER = {Const: 0, Typedef: 1, Enum: 2, Struct: 3, Union: 4}


class _Timeout(BaseException):
    pass


def _alarm(signum, frame):
    raise _Timeout()


def decl_deps(schema, d):
    """Names of definitions `d` needs (enumerators mapped to their enum)."""
    owner = {}
    for x in schema.decls:
        if isinstance(x, Enum):
            for m in x.members:
                owner[m[0]] = x.name
    deps = set(ir.decl_type_deps(d))
    exprs = []
    if isinstance(d, Const):
        exprs = [d.expr]
    elif isinstance(d, Enum):
        exprs = [m[2] for m in d.members]
    elif isinstance(d, Struct):
        exprs = [m.size_expr for m in d.members if m.size_expr]
    elif isinstance(d, Union):
        exprs = [a.disc_expr for a in d.arms]
    for e in exprs:
        for name in cpph._IDENT.findall(str(e)):
            name = owner.get(name, name)
            if name in schema.by_name:
                deps.add(name)
    deps.discard(d.name)
    return deps


def side_file_for(decls):
    """Name of a side file to include (a third of the inputs): the file is called like one of the definitions of the
    including file - an include is no definition, whatever its file is called."""
    named = [d.name for d in decls if isinstance(d, (Struct, Union, ir.Typedef, ir.Enum))]
    text = ir.to_isar(decls)
    return named[len(text) % len(named)] if named and len(text) % 3 == 0 else None


def run_isar(decls):
    """-> (model nodes of the main file, its generated Python module text, its imported namespace or the exception)"""
    work = pyh.fresh_dir('c15')
    try:
        side = side_file_for(decls)
        inputs = [os.path.join(work, 'm.xml')]
        with open(inputs[0], 'w') as f:
            f.write(ir.to_isar(decls, [side + '.xml'] if side else ()))
        if side:
            inputs.append(os.path.join(work, side + '.xml'))
            with open(inputs[1], 'w') as f:
                f.write(ir.to_isar([ir.Const('ZZ_SIDE_%s' % side, 1, '1')]))
        old = signal.signal(signal.SIGALRM, _alarm)
        signal.setitimer(signal.ITIMER_REAL, WATCHDOG_S, 1.0)
        try:
            nodes = pyh.run_prophyc(['--isar'] + inputs + ['--python_out', work])['m']
        finally:
            signal.setitimer(signal.ITIMER_REAL, 0)
            signal.signal(signal.SIGALRM, old)
        with open(os.path.join(work, 'm.py')) as f:
            py = f.read()
        try:
            if side:
                from vlib import multifile
                ns = multifile.import_package(work)['m']
            else:
                ns = pyh.load_module_text(py)
        except Exception as ex:
            ns = ex
        from prophyc import model
        return [n for n in nodes if not isinstance(n, model.Include)], py, ns
    finally:
        shutil.rmtree(work, ignore_errors=True)


def check_perm(schema, order, rw=None, deps=None):
    """order: list of decl names = XML element order.  -> None | (what, details)"""
    rw = rw or RefWire(schema)
    deps = deps or {d.name: decl_deps(schema, d) for d in schema.decls}
    decls = [schema.by_name[n] for n in order]
    det = {'xml': ir.to_isar(decls), 'order': list(order), 'included_side_file': side_file_for(decls)}
    try:
        nodes, py, ns = run_isar(decls)
    except _Timeout:
        return ("prophyc did not terminate within %d s" % WATCHDOG_S, det)
    except pyh.CompileFailed as ex:
        return ("prophyc refused an acyclic definition set: %s" % str(ex)[:300], det)
    except Exception as ex:
        return ("prophyc raised %s: %s" % (type(ex).__name__, str(ex)[:300]), dict(det, exception=common.exc_info(ex)))
    names = [n.name for n in nodes]
    det['output_order'] = names
    if sorted(names) != sorted(schema.by_name):
        return ("output does not list every definition exactly once", det)
    pos = {n: i for i, n in enumerate(names)}
    for n in names:
        for dep in deps[n]:
            if pos[dep] > pos[n]:
                return ("%s is emitted before %s, which it depends on" % (n, dep), det)
    if isinstance(ns, Exception):
        return ("generated Python module does not import: %s: %s" % (type(ns).__name__, str(ns)[:200]), det)
    for node in nodes:
        d = schema.by_name[node.name]
        if isinstance(d, (Struct, Union)):
            size, align, stiff = rw.layout(d.name)
            got = (node.byte_size if stiff == ir.FIXED else None, node.alignment, node.kind)
            if got != (size, align, stiff):
                return ("layout of %s under this ordering is (size, alignment, stiffness) = %r, wire rules say %r" % (
                    d.name, got, (size, align, stiff)), det)
            cls = ns[d.name]
            if cls._ALIGNMENT != align or (stiff == ir.FIXED and cls._SIZE != size):
                return ("Python class %s has _SIZE/_ALIGNMENT %r/%r under this ordering, wire rules say %r/%r" % (
                    d.name, cls._SIZE, cls._ALIGNMENT, size, align), det)
    return None


def grouped_order(schema, order):
    """Order in which isar's parser yields the elements (grouped by kind, document order inside a kind)."""
    return sorted(order, key=lambda n: KIND_ORDER[type(schema.by_name[n])])


def is_topological(schema, order, deps):
    seen = set()
    for n in order:
        if not deps[n] <= seen:
            return False
        seen.add(n)
    return True


def gen_opts(max_decls):
    return gen.GenOpts(allow_greedy=False, big_sizes=False, min_decls=3, max_decls=max_decls, max_members=4,
                       const_exprs=True, const_ref_bias=2, allow_unset=False, chain_focus=3, enum_aliases=False)


@st.composite
def cases(draw, max_decls, exhaustive):
    schema = draw(gen.schemas(gen_opts(max_decls)))
    names = [d.name for d in schema.decls]
    if exhaustive and len(names) <= 5:
        return schema, None
    perms = [draw(st.permutations(names)) for _ in range(6)]
    return schema, perms


def body(case, stats):
    schema, perms = case
    rw = RefWire(schema)
    deps = {d.name: decl_deps(schema, d) for d in schema.decls}
    names = [d.name for d in schema.decls]
    text = schema.to_prophy()
    if perms is None:
        perms = itertools.permutations(names)
        stats.notes['sets_exhaustive'] += 1
    else:
        stats.notes['sets_sampled'] += 1
    for order in perms:
        order = list(order)
        nontrivial = not is_topological(schema, grouped_order(schema, order), deps)
        bad = check_perm(schema, order, rw, deps)
        stats.case((text, tuple(order)), nontrivial, ('n=%d' % len(names),),
                   sample=lambda: {'definitions': text, 'xml_order': order})
        if bad:
            fid = None
            if fid:
                continue
            raise Violation(bad[0], {'schema': schema.to_json(), 'schema_text': text, 'order': order,
                                     'details': bad[1]})


def worker(widx, seed, tier, stats):
    n_small, n_big = {'quick': (12, 25), 'thorough': (250, 600)}[tier]
    runner.run_given(cases(5, True), body, seed, n_small, stats)
    runner.run_given(cases(12, False), body, seed + 1, n_big, stats)


def check_case(schema, order):
    return check_perm(schema, order)


def regress(stats):
    import glob, json
    for path in sorted(glob.glob(os.path.join(runner.VERIF, 'regress', ID, '*.json'))):
        payload = json.load(open(path))
        schema = Schema.from_json(payload['case']['schema'])
        bad = check_perm(schema, payload['case']['order'])
        stats.notes['regress_cases'] += 1
        if bad:
            stats.violations.append({'what': 'regression input %s: %s' % (os.path.basename(path), bad[0]),
                                     'case': payload['case']})


def run(tier, seed):
    t0 = time.time()
    stats = runner.run_workers(__name__, 'worker', seed, tier)
    regress(stats)
    return runner.finish(ID, tier, seed, LEVEL, RULE, stats, t0, ASSUME)


def replay(payload):
    schema = Schema.from_json(payload['case']['schema'])
    bad = check_perm(schema, payload['case']['order'])
    if bad:
        print("VIOLATION property=%s replay=(given)\n  %s\n  %s" % (ID, bad[0], ir.dumps(bad[1])))
        return 1
    print("replay: property holds on this case")
    return 0
