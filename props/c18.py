"""C18 - text rendering is the same in Python and C++ and is not order-sensitive.

generator : SchemaGen(cpp_full_ok, no floats) x ValueGen; bytes values restricted to those whose Python repr uses
            single quotes (the property's stated domain; values holding both kinds of quote are inside it)
oracle    : str(python message) == print() of the C++ object decoded from the same canonical bytes, exactly.
            Python renders every field independently, so a C++ field whose rendering depends on what was printed
            before it (e.g. a stream flag left behind) shows up as a difference in a later line.
"""
import time

from vlib import gen, ir, cppcamp, runner, common
from vlib.ir import UNSET

ID = 'C18'
LEVEL = 'exploration'
RULE = ("cases = (generated float-free schema, composite type, generated value); non-trivial = the message has a "
        "bytes field with a byte that needs escaping followed by another field, or a nested composite, an enum, an "
        "absent optional or a union; distinct = distinct hash of (schema text, type, value)")
ASSUME = ["floating point fields are excluded (formatting is language specific)",
          "bytes values whose Python repr would use double quotes (a ' and no \") are rewritten to hold a \" instead"]


def quote_safe(v):
    """Keep bytes inside the property's domain: Python repr must use single quotes."""
    if isinstance(v, bytes):
        if b"'" in v and b'"' not in v:
            return v.replace(b"'", b'"')
        return v
    if isinstance(v, dict):
        return {k: quote_safe(x) for k, x in v.items()}
    if isinstance(v, list):
        return [quote_safe(x) for x in v]
    if isinstance(v, tuple):
        return (v[0], quote_safe(v[1]))
    return v


def inject_quotes(v):
    """Variant of a value whose bytes fields (>= 2 bytes) hold both kinds of quote and a backslash."""
    if isinstance(v, bytes):
        if len(v) >= 3:
            return b"'\"\\" + v[3:]
        if len(v) == 2:
            return b"'\""
        return v
    if isinstance(v, dict):
        return {k: inject_quotes(x) for k, x in v.items()}
    if isinstance(v, list):
        return [inject_quotes(x) for x in v]
    if isinstance(v, tuple):
        return (v[0], inject_quotes(v[1]))
    return v


def text_features(rw, tname, val):
    feats = gen.schema_features(rw, tname)
    data, spans = rw.encode(tname, val, '<')
    esc = False
    for s, e, role, _ in spans:
        if role == 'bytes' and any(b < 32 or b > 126 or b in (39, 92) for b in data[s:e]):
            esc = True
            if e < max(x[1] for x in spans):
                feats.add('escaped_byte_before_other_field')
        if role == 'bytes' and b"'" in data[s:e]:
            feats.add('quote_in_bytes')
    if esc:
        feats.add('escaped_byte')
    return feats


class Campaign(cppcamp.FullCampaign):
    prop = ID
    nontrivial = frozenset({'escaped_byte_before_other_field', 'nested_composite', 'enum', 'optional', 'union'})

    def gen_opts(self):
        o = cppcamp.FullCampaign.gen_opts(self)
        o.allow_float = False
        return o

    def features(self, rw, tname, val):
        return text_features(rw, tname, quote_safe(val))

    def vectors(self, rw, py, tname, val):
        val = quote_safe(val)
        out = [('print', 'dec', '<', rw.encode(tname, val, '<')[0], 0)]
        q = inject_quotes(val)
        if q != val:
            out.append(('print-quoted', 'dec', '<', rw.encode(tname, q, '<')[0], 0))
        return out

    def judge(self, rw, tname, val, vec, res):
        val = quote_safe(val)
        if vec[0] == 'print-quoted':
            val = inject_quotes(val)
        if 'crash' in res:
            return ("C++ full codec died on valid bytes: %s" % res['crash'], {'stderr': res.get('stderr', '')[-1500:]})
        if not res.get('ok'):
            return None     # C03's business
        from vlib import pyh
        codec = self._py
        try:
            want = str(codec.build(tname, val))
        except Exception as ex:
            return ("Python str() raised %s: %s" % (type(ex).__name__, ex), {'exception': common.exc_info(ex)})
        # the text does not depend on how an enum field was assigned: by number, by name, by an enumerator object of
        # the field's enum, or by one read from a field of another enum that uses the same number
        for start in (1, 2, 3):
            ea = pyh.EnumArgs(codec.ns, start)
            try:
                other = str(codec.build(tname, val, ea))
            except Exception as ex:
                return ("assigning enum fields by %s raised %s: %s" % ('/'.join(sorted(ea.used)), type(ex).__name__, ex),
                        {'exception': common.exc_info(ex)})
            if other != want:
                return ("str() in Python depends on how enum fields were assigned (number vs %s)" % '/'.join(sorted(ea.used)),
                        {'by_number': want, 'otherwise': other})
        got = res['print'].decode('latin-1')
        if got != want:
            det = {'python': want, 'cpp': got}
            if want.replace("'\n", "\n") != want and ": '\n" in want:
                det['p3_text'] = True
            return ("str() in Python and print() in C++ differ", det)
        return None


CAMPAIGN = Campaign()
check_case = CAMPAIGN.check_case


def worker(widx, seed, tier, stats):
    CAMPAIGN.worker(widx, seed, tier, stats, {'quick': 2, 'thorough': 40}[tier])


def run(tier, seed):
    t0 = time.time()
    stats = runner.run_workers(__name__, 'worker', seed, tier)
    common.run_regress(ID, stats, check_case)
    return runner.finish(ID, tier, seed, LEVEL, RULE, stats, t0, ASSUME)


def replay(payload):
    return CAMPAIGN.replay(payload)
