"""C19 - byte order changes only the bytes inside scalars; padding is always zero.

Python part: encode('<') vs encode('>') of generated messages.
C++ part   : encode<little>() / encode<big>() / encode() of the generated full codec (see cpp section below).
oracle     : metamorphic; RefWire's span map is used only to know *where* scalars, payload bytes and padding are.
"""
import time

from vlib import gen, ir, pyh, runner, common, cppcamp
from vlib.refwire import RefWire
from vlib.runner import Violation

ID = 'C19'
LEVEL = 'exploration'
RULE = ("cases = (generated schema, composite type, generated value); little- and big-endian encodings compared "
        "span by span; non-trivial = the message contains a multi-byte scalar and at least one padding byte; "
        "distinct = distinct hash of (schema text, type, value). C++ cases: the same relation on the vector encoders "
        "of the generated full codec, and encode() == encode<little>() on this little-endian host")
ASSUME = ["positions of scalars/padding are taken from RefWire's span map (docs/encoding.rst)",
          "host is little-endian x86-64, so native == little is the only checkable instance"]
SCALAR_ROLES = ('int', 'float', 'enum', 'counter', 'flag', 'disc')


def relation(le, be, spans):
    """-> None or description of the first breach of the metamorphic relation."""
    if len(le) != len(be):
        return "little- and big-endian encodings differ in length (%d vs %d)" % (len(le), len(be))
    covered = bytearray(len(le))
    for s, e, role, _ in spans:
        if e > len(le):
            return "encoding shorter than the documented layout (span %d..%d of %d bytes)" % (s, e, len(le))
        for i in range(s, e):
            covered[i] = 1
        if role in SCALAR_ROLES:
            if le[s:e] != be[s:e][::-1]:
                return "%s at offset %d: big-endian bytes are not the reverse of the little-endian bytes" % (role, s)
        else:
            if le[s:e] != be[s:e]:
                return "bytes payload at offset %d differs between byte orders" % s
    for i, c in enumerate(covered):
        if not c and (le[i] or be[i]):
            return "padding byte at offset %d is not zero" % i
    return None


def check_case(schema, tname, val, codec=None, rw=None):
    rw = rw or RefWire(schema)
    codec = codec or pyh.PyCodec(schema)
    _, spans = rw.encode(tname, val, '<')
    try:
        msg = codec.build(tname, val)
        le, be = msg.encode('<'), msg.encode('>')
    except Exception as ex:
        return ("encode raised %s: %s" % (type(ex).__name__, ex), {'exception': common.exc_info(ex)})
    why = relation(le, be, spans)
    if why:
        return ("Python %s: %s" % (tname, why), {'little': le.hex(), 'big': be.hex()})
    return None


def body(case, stats):
    schema, cases = case
    rw = RefWire(schema)
    text = schema.to_prophy()
    try:
        codec = pyh.PyCodec(schema, text)
    except Exception as ex:
        stats.notes['schema_not_usable(%s)' % type(ex).__name__] += 1
        return
    for tname, val in cases:
        vf = gen.value_features(rw, tname, val)
        bad = check_case(schema, tname, val, codec, rw)
        stats.case((text, tname, repr(val)), {'has_padding', 'multibyte_scalar'} <= vf, vf,
                   sample=lambda: common.sample(schema, tname, val, rw))
        if bad:
            fid = common.classify_known(ID, schema, rw, tname, val, bad)
            if fid:
                stats.known_finding(fid, lambda: common.sample(schema, tname, val, rw))
                continue
            raise Violation(bad[0], common.case_payload(schema, tname, val, bad[1]))


class CppCampaign(cppcamp.FullCampaign):
    """C++ part: encode<little>() / encode<big>() / encode() of the object decoded from the canonical bytes."""
    prop = ID
    nontrivial = frozenset({'padding_and_multibyte'})

    def features(self, rw, tname, val):
        vf = gen.value_features(rw, tname, val)
        return vf | ({'padding_and_multibyte'} if {'has_padding', 'multibyte_scalar'} <= vf else set()) | {'cpp'}

    def vectors(self, rw, py, tname, val):
        return [('cpp', 'dec', '<', rw.encode(tname, val, '<')[0], 0)]

    def judge(self, rw, tname, val, vec, res):
        if 'crash' in res:
            return ("C++ full codec died on valid bytes: %s" % res['crash'], {'stderr': res.get('stderr', '')[-1500:]})
        if not res.get('ok'):
            return None     # C03's business
        _, spans = rw.encode(tname, val, '<')
        why = relation(res['encL'], res['encB'], spans)
        if why:
            return ("C++ %s: %s" % (tname, why), {'little': res['encL'].hex(), 'big': res['encB'].hex()})
        if res['encN'] != res['encL']:
            return ("C++ encode() (native) differs from encode<little>() on a little-endian host",
                    {'little': res['encL'].hex(), 'native': res['encN'].hex()})
        return None


CPP = CppCampaign()


def worker(widx, seed, tier, stats):
    n = {'quick': 200, 'thorough': 5000}[tier]
    opts = gen.GenOpts(avoid=common.avoid_set(ID))
    runner.run_given(gen.schema_with_values(opts), body, seed, n, stats)
    if not stats.violations:
        CPP.worker(widx, seed + 5, tier, stats, {'quick': 1, 'thorough': 20}[tier])


def run(tier, seed):
    t0 = time.time()
    stats = runner.run_workers(__name__, 'worker', seed, tier)
    common.run_regress(ID, stats, check_case)
    return runner.finish(ID, tier, seed, LEVEL, RULE, stats, t0, ASSUME)


def replay(payload):
    schema, tname, val = common.case_from_payload(payload)
    bad = check_case(schema, tname, val)
    if bad:
        print("VIOLATION property=%s replay=(given)\n  %s\n  %s" % (ID, bad[0], ir.dumps(bad[1])))
        return 1
    print("replay: property holds on this case")
    return 0
