"""C02 - Python decode inverts encode and consumes exactly the message.

generator : SchemaGen x ValueGen (greedy tails constructed to end aligned) x {'<','>'}
oracle    : round trip - decode(encode(v)) reports len, snapshot equals v, re-encode reproduces the bytes;
            the canonical RefWire bytes are decoded as well.
"""
import time

from vlib import gen, ir, pyh, runner, common
from vlib.refwire import RefWire
from vlib.runner import Violation

ID = 'C02'
LEVEL = 'exploration'
RULE = ("cases = (generated schema, composite type, generated value, byte order); greedy tails are constructed so "
        "that no padding follows them; non-trivial = the type (transitively) has an optional, union, "
        "counted array, nested composite or enum; distinct = distinct hash of (schema text, type, value)")
ASSUME = ["NaN floats are not generated (they do not compare equal)",
          "r32 values are generated exactly representable in 32 bits",
          "arrays and bytes fields hold at most 65536 elements - the bound on element counts that the decoder enforces "
          "and C06 relies on (longer ones encode but are refused by decode)"]
NONTRIVIAL = {'optional', 'union', 'dynamic_array', 'ext_array', 'limited', 'nested_composite', 'enum'}


def check_case(schema, tname, val, codec=None, rw=None):
    rw = rw or RefWire(schema)
    codec = codec or pyh.PyCodec(schema)
    want = rw.normalize(tname, val)
    for e in '<>':
        try:
            enc = codec.build(tname, val).encode(e)
        except Exception as ex:
            return ("encode raised %s" % type(ex).__name__, {'endianness': e, 'exception': common.exc_info(ex),
                                                          'stage': 'encode'})
        inputs = [('own encoding', enc)]
        canon = rw.encode(tname, val, e)[0]
        if canon != enc:
            inputs.append(('canonical encoding', canon))
        for label, data in inputs:
            fresh = codec.new(tname)
            try:
                n = fresh.decode(data, e)
            except Exception as ex:
                return ("decode(%s) of %s raised %s: %s" % (label, tname, type(ex).__name__, ex),
                        {'endianness': e, 'input': data.hex(), 'exception': common.exc_info(ex), 'stage': 'decode'})
            if n != len(data):
                return ("decode(%s) of %s consumed %r of %d bytes" % (label, tname, n, len(data)),
                        {'endianness': e, 'input': data.hex(), 'stage': 'length'})
            try:
                got = codec.snapshot(tname, fresh)
            except Exception as ex:
                return ("reading back decoded %s raised %s: %s" % (tname, type(ex).__name__, ex),
                        {'endianness': e, 'input': data.hex(), 'exception': common.exc_info(ex), 'stage': 'read'})
            if not pyh.values_equal(got, want):
                return ("decode(%s) of %s yields a different value" % (label, tname),
                        {'endianness': e, 'input': data.hex(), 'decoded': ir.value_to_json(got),
                         'expected': ir.value_to_json(want), 'stage': 'value'})
            try:
                again = fresh.encode(e)
            except Exception as ex:
                return ("re-encode of decoded %s raised %s: %s" % (tname, type(ex).__name__, ex),
                        {'endianness': e, 'input': data.hex(), 'exception': common.exc_info(ex), 'stage': 'reencode'})
            if again != data:
                return ("re-encode of decoded %s differs from the decoded bytes" % tname,
                        {'endianness': e, 'input': data.hex(), 'reencoded': again.hex(), 'stage': 'reencode'})
    return None


def body(case, stats):
    schema, cases = case
    rw = RefWire(schema)
    text = schema.to_prophy()
    try:
        codec = pyh.PyCodec(schema, text)
    except Exception as ex:
        stats.notes['schema_not_usable(%s)' % type(ex).__name__] += 1
        return
    for tname, val in cases:
        sf = gen.schema_features(rw, tname)
        bad = check_case(schema, tname, val, codec, rw)
        stats.case((text, tname, repr(val)), bool(sf & NONTRIVIAL), sf,
                   sample=lambda: common.sample(schema, tname, val, rw))
        if bad:
            fid = common.classify_known(ID, schema, rw, tname, val, bad)
            if fid:
                stats.known_finding(fid, lambda: common.sample(schema, tname, val, rw))
                continue
            raise Violation(bad[0], common.case_payload(schema, tname, val, bad[1]))


def worker(widx, seed, tier, stats):
    n = {'quick': 300, 'thorough': 6000}[tier]
    opts = gen.GenOpts(avoid=common.avoid_set(ID), tail_focus=6, alias_focus=8, block_focus=8, rich_size_exprs=True, oddunion_focus=8, smallopt_focus=8)
    runner.run_given(gen.schema_with_values(opts), body, seed, n, stats)
    if opts.avoid and widx < 2:
        runner.run_given(gen.schema_with_values(gen.GenOpts()), body, seed + 1, max(n // 4, 50), stats)


def run(tier, seed):
    t0 = time.time()
    stats = runner.run_workers(__name__, 'worker', seed, tier)
    common.run_regress(ID, stats, check_case)
    return runner.finish(ID, tier, seed, LEVEL, RULE, stats, t0, ASSUME)


def replay(payload):
    schema, tname, val = common.case_from_payload(payload)
    bad = check_case(schema, tname, val)
    if bad:
        print("VIOLATION property=%s replay=(given)\n  %s\n  %s" % (ID, bad[0], ir.dumps(bad[1])))
        return 1
    print("replay: property holds on this case")
    return 0
