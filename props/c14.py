"""C14 - constant expressions denote one integer, the same in every back-end.

generator : expression ASTs (decimal / hex / octal literals, + - * / << >>, unary minus, minimal or redundant
            parentheses, references to earlier constants and enumerators, also across an include) used as constant
            values, enumerator values, array sizes and discriminators; isar variant with shiftLeft().
reference : exact integer arithmetic on the AST under the language's precedence table.
oracle    : (1) parse-time evaluator: model node value / generated .py attribute == reference and is an int
            (2) model-time evaluator prophyc.calc.eval on the dec/hex rendering == reference
            (3) back-ends: Python module attribute, len() of the fixed array, discriminator used by the union;
                compiled C++: enum constants, array extents and discriminators of raw and full headers.
"""
import os
import shutil
import subprocess
import time

from hypothesis import strategies as st

from vlib import gen, ir, pyh, cpph, expr, runner, common
from vlib.expr import Num, Name, Bin, Neg, Paren
from vlib.runner import Violation

ID = 'C14'
LEVEL = 'exploration'
RULE = ("cases = one generated constant / enumerator / array-size / discriminator expression each (a generated file "
        "holds ~10); non-trivial = the expression has >= 2 operators of different precedence, or a name reference, "
        "or a non-decimal literal; distinct = distinct rendered expression text with its environment values")
ASSUME = ["reference semantics: unbounded integers, '/' = floor division, generated only with non-negative operands "
          "and non-zero divisor; shift counts 0..31; all values inside 63 bits",
          "enumerators and discriminators are kept inside [0, 2^32), array sizes inside [1, 64]"]


AVOID = common.avoid_set(ID)


class Doc(object):
    """A generated file: ordered items (kind, name, ast, value) + rendering."""

    def __init__(self):
        self.items = []   # ('const'|'enumerator'|'size'|'disc', name, ast, value, owner)
        self.env = {}


@st.composite
def docs(draw, isar=False):
    d = Doc()
    inc = Doc() if draw(st.booleans()) else None
    # isar: shifts only in the documented shiftLeft(a, b) form (a raw '<<' would be re-read by every back-end
    # language with its own precedence)
    kw = dict(allow_octal=not isar, allow_shift=True, allow_neg=True, allow_rshift=not isar)
    n_inc = draw(st.integers(1, 3)) if inc else 0
    idx = 0
    env = {}
    for i in range(n_inc):
        e = draw(expr.expressions(dict(env), depth=2, **kw))
        name = 'IK%d' % i
        env[name] = e.eval(env)
        inc.items.append(('const', name, e, env[name], None))
    if inc and isar and 'isar_included_enumerator_reference' not in AVOID and draw(st.booleans()):
        # an enum of the included file: the including file may name its enumerators (finding E1 while it is open)
        for j, v in enumerate(draw(st.lists(st.integers(0, 40), min_size=1, max_size=3, unique=True))):
            env['IE0_%s' % 'abc'[j]] = v
            inc.items.append(('enumerator', 'IE0_%s' % 'abc'[j], Num(v), v, 'IE0'))
    n_const = draw(st.integers(2, 6))
    for i in range(n_const):
        e = draw(expr.expressions(dict(env), depth=draw(st.integers(1, 4)), **kw))
        name = 'K%d' % i
        env[name] = e.eval(env)
        d.items.append(('const', name, e, env[name], None))
        if i == 1:
            # an enum in the middle: its enumerators become usable names
            used = set()
            env_before_enum = dict(env)
            for j in range(draw(st.integers(1, 3))):
                # isar passes enumerator expressions on as text: siblings of the same enum are not yet names there
                e = draw(expr.expressions(dict(env_before_enum if isar else env), depth=2, **kw))
                v = e.eval(env)
                if not 0 <= v < (1 << 32) or v in used:
                    e = Bin('+', Num(0), Num(draw(st.integers(0, 1000)) * 7 + j))
                    v = e.eval(env)
                    if v in used:
                        continue
                used.add(v)
                en = 'E0_%s' % 'abc'[j]
                env[en] = v
                d.items.append(('enumerator', en, e, v, 'E0'))
    # a struct with fixed arrays sized by expressions: e - value(e) + k  (k small, positive)
    for i in range(draw(st.integers(1, 3))):
        skw = dict(kw, allow_shift=False, allow_neg=False) if isar else kw
        base = draw(expr.expressions(dict(env), depth=2, **skw))
        k = draw(st.integers(1, 9))
        e = Bin('+', Bin('-', base, Num(base.eval(env))), Num(k))
        form = draw(st.integers(0, 4))
        if form == 2:
            # rows x inexact quotient: r * (X / q) differs from r * X / q
            q = draw(st.integers(2, 7))
            x = draw(st.integers(q + 1, 40).filter(lambda v: v % q))
            cands = sorted(n for n, v in env.items() if q < v <= 40 and v % q)
            xe = Name(draw(st.sampled_from(cands))) if cands and draw(st.booleans()) else Num(x)
            e = Bin('*', Num(draw(st.integers(2, 3))), Bin('/', xe, Num(q)))
        elif form == 0:
            e = Bin('*', Paren(e) if draw(st.booleans()) else e, Num(draw(st.integers(1, 3))))
        elif form == 1:
            # a product of two sums (the two extents of a two-dimensional array, see render_isar)
            base2 = draw(expr.expressions(dict(env), depth=1, **skw))
            e = Bin('*', e, Bin('+', Bin('-', base2, Num(base2.eval(env))), Num(draw(st.integers(1, 6)))))
        v = e.eval(env)
        if not 1 <= v <= 64:
            e, v = Num(k), k
        d.items.append(('size', 'a%d' % i, e, v, 'S0'))
    # a union with discriminators given by expressions
    used = set()
    for i in range(draw(st.integers(1, 3))):
        if isar:
            # discriminatorValue is a literal or a name in isar (no expression support is documented)
            cands = sorted(n for n, v in env.items() if 0 <= v < (1 << 32))
            if cands and draw(st.booleans()):
                e = Name(draw(st.sampled_from(cands)))
            else:
                e = Num(draw(st.integers(0, 2000)))
        else:
            e = draw(expr.expressions(dict(env), depth=2, **kw))
        v = e.eval(env)
        if not 0 <= v < (1 << 32) or v in used:
            e = Num(1000 + i)
            v = 1000 + i
            if v in used:
                continue
        used.add(v)
        d.items.append(('disc', 'u%d' % i, e, v, 'U0'))
    d.env = env
    d.inc = inc
    d.isar = isar
    d.style = draw(st.sampled_from([' ', '']))      # blanks around binary operators, or none (A/4/2)
    d.isar_func = isar
    return d


def render_prophy(d):
    files = {}
    if d.inc:
        files['inc.prophy'] = ''.join('const %s = %s;\n' % (n, expr.render(e, 'prophy', d.style))
                                      for k, n, e, v, o in d.inc.items)
    out = ['#include "inc.prophy"\n'] if d.inc else []
    enum_open = False
    pending_enum = [it for it in d.items if it[0] == 'enumerator']
    done_enum = False
    for k, n, e, v, o in d.items:
        if k == 'const':
            out.append('const %s = %s;\n' % (n, expr.render(e, 'prophy', d.style)))
        elif k == 'enumerator' and not done_enum:
            done_enum = True
            out.append('enum E0\n{\n%s\n};\n' % ',\n'.join(
                '    %s = %s' % (nn, expr.render(ee, 'prophy', d.style)) for kk, nn, ee, vv, oo in pending_enum))
    sizes = [it for it in d.items if it[0] == 'size']
    out.append('struct S0\n{\n%s\n};\n' % '\n'.join(
        '    u8 %s[%s];' % (n, expr.render(e, 'prophy', d.style)) for k, n, e, v, o in sizes))
    discs = [it for it in d.items if it[0] == 'disc']
    out.append('union U0\n{\n%s\n};\n' % '\n'.join(
        '    %s: u8 %s;' % (expr.render(e, 'prophy', d.style), n) for k, n, e, v, o in discs))
    files['m.prophy'] = ''.join(out)
    return files


def render_isar(d):
    syn = 'isar-func' if d.isar_func else 'isar'
    files = {}
    out = ['<x>']
    if d.inc:
        inc = ['<x>'] + ['<constant name="%s" value="%s"/>' % (n, _xml(expr.render(e, syn, d.style)))
                         for k, n, e, v, o in d.inc.items if k == 'const']
        iens = [it for it in d.inc.items if it[0] == 'enumerator']
        if iens:
            inc.append('<enum name="IE0">%s</enum>' % ''.join(
                '<enum-member name="%s" value="%d"/>' % (n, v) for k, n, e, v, o in iens))
        files['inc.xml'] = '\n'.join(inc + ['</x>'])
        out.append('<xi:include xmlns:xi="http://www.w3.org/2001/XInclude" href="inc.xml"/>')
    for k, n, e, v, o in d.items:
        if k == 'const':
            out.append('<constant name="%s" value="%s"/>' % (n, _xml(expr.render(e, syn, d.style))))
    ens = [it for it in d.items if it[0] == 'enumerator']
    if ens:
        out.append('<enum name="E0">%s</enum>' % ''.join(
            '<enum-member name="%s" value="%s"/>' % (n, _xml(expr.render(e, syn, d.style))) for k, n, e, v, o in ens))
    sizes = [it for it in d.items if it[0] == 'size']
    def dim(e):
        # a product may be written as the two extents of a two-dimensional array (each an expression of its own)
        if isinstance(e, expr.Bin) and e.op == '*' and not isinstance(e.a, expr.Paren) and len(expr.render(e, syn)) % 3:
            return 'size="%s" size2="%s"' % (_xml(expr.render(e.a, syn, d.style)), _xml(expr.render(e.b, syn, d.style)))
        return 'size="%s"' % _xml(expr.render(e, syn, d.style))
    out.append('<struct name="S0">%s</struct>' % ''.join(
        '<member name="%s" type="u8"><dimension %s/></member>' % (n, dim(e)) for k, n, e, v, o in sizes))
    discs = [it for it in d.items if it[0] == 'disc']
    out.append('<union name="U0">%s</union>' % ''.join(
        '<member name="%s" type="u8" discriminatorValue="%s"/>' % (n, _xml(expr.render(e, syn, d.style)))
        for k, n, e, v, o in discs))
    out.append('</x>')
    files['m.xml'] = '\n'.join(out)
    return files


def _xml(s):
    return s.replace('&', '&amp;').replace('<', '&lt;').replace('>', '&gt;').replace('"', '&quot;')


def build(d, cpp=False):
    """-> dict with nodes, py namespace, directory (caller cleans)"""
    work = pyh.fresh_dir('c14')
    files = render_isar(d) if d.isar else render_prophy(d)
    for fn, text in files.items():
        with open(os.path.join(work, fn), 'w') as f:
            f.write(text)
    main = 'm.xml' if d.isar else 'm.prophy'
    args = [os.path.join(work, main), '--python_out', work]
    if d.isar:
        args.insert(0, '--isar')
    if cpp:
        args += ['--cpp_out', work, '--cpp_full_out', work]
    if d.inc:
        args.insert(1 if d.isar else 0, os.path.join(work, 'inc.xml' if d.isar else 'inc.prophy'))
    nodes = pyh.run_prophyc(args)
    return work, files, nodes


def import_py(work, d):
    import importlib
    import sys
    pkg = 'pvc14_%s' % os.path.basename(work)
    open(os.path.join(work, '__init__.py'), 'w').close()
    parent = os.path.dirname(work)
    sys.path.insert(0, parent)
    try:
        os.rename(work, os.path.join(parent, pkg))
        work = os.path.join(parent, pkg)
        mod = importlib.import_module(pkg + '.m')
        return work, mod
    finally:
        sys.path.remove(parent)
        for k in [k for k in sys.modules if k.startswith(pkg)]:
            del sys.modules[k]


def check_doc(d, stats=None, cpp=False):
    """-> None | (what, details)"""
    try:
        work, files, nodes = build(d, cpp)
    except pyh.CompileFailed as ex:
        return ("prophyc refused a well-formed expression file: %s" % str(ex)[:300], {'files': render_files(d)})
    except Exception as ex:
        return ("prophyc raised %s on a well-formed expression file: %s" % (type(ex).__name__, str(ex)[:200]),
                {'files': render_files(d), 'exception': common.exc_info(ex)})
    try:
        return _check_built(d, work, files, nodes, stats, cpp)
    finally:
        shutil.rmtree(work, ignore_errors=True)
        parent = os.path.dirname(work)
        for n in os.listdir(parent):
            if n.startswith('pvc14_'):
                shutil.rmtree(os.path.join(parent, n), ignore_errors=True)


def render_files(d):
    return render_isar(d) if d.isar else render_prophy(d)


def _check_built(d, work, files, nodes, stats, cpp):
    pyh.setup_repo()
    from prophyc import calc, model
    det = {'files': files}
    by_name = {}
    for fname, ns in nodes.items():
        for n in ns:
            by_name[n.name] = n
            if isinstance(n, model.Enum):
                for m in n.members:
                    by_name[m.name] = m
    # (2) model-time evaluator on the dec/hex rendering
    env = {}
    all_items = (d.inc.items if d.inc else []) + d.items
    for k, n, e, v, o in all_items:
        text = expr.render(_no_octal(e), 'prophy')
        try:
            got = calc.eval(text, dict(env))
        except Exception as ex:
            return ("model-time evaluator (prophyc.calc) failed on %r: %s: %s" % (text, type(ex).__name__, ex), det)
        if got != v or not isinstance(got, int):
            return ("model-time evaluator (prophyc.calc.eval) gives %r for %r, integer arithmetic gives %d" % (
                got, text, v), det)
        if k in ('const', 'enumerator'):
            env[n] = v
    # (1) parse-time evaluator / model nodes
    for k, n, e, v, o in all_items:
        if k in ('const', 'enumerator'):
            node = by_name.get(n)
            if node is None:
                return ("model has no node for %s" % n, det)
            if not d.isar:
                if str(node.value) != str(v):
                    return ("parse-time evaluator stored %r for %s = %s, integer arithmetic gives %d" % (
                        node.value, n, expr.render(e, 'prophy', d.style), v), det)
        elif k == 'size':
            st_ = by_name['S0']
            mem = next(m for m in st_.members if m.name == n)
            if mem.numeric_size != v:
                return ("array size of S0.%s evaluated to %r, integer arithmetic gives %d" % (n, mem.numeric_size, v),
                        det)
        elif k == 'disc':
            un = by_name['U0']
            mem = next(m for m in un.members if m.name == n)
            if not d.isar and str(mem.discriminator) != str(v):
                return ("discriminator of U0.%s stored as %r, integer arithmetic gives %d" % (n, mem.discriminator, v),
                        det)
    sizes = [it for it in d.items if it[0] == 'size']
    want_size = sum(it[3] for it in sizes)
    if by_name['S0'].byte_size != want_size:
        return ("computed layout: S0 is %r bytes, the array sizes add up to %d" % (by_name['S0'].byte_size, want_size),
                det)
    # (3) Python back-end
    try:
        work2, mod = import_py(work, d)
    except Exception as ex:
        return ("generated Python module does not import: %s: %s" % (type(ex).__name__, str(ex)[:300]), det)
    for k, n, e, v, o in all_items:
        if k in ('const', 'enumerator'):
            got = getattr(mod, n, None)
            if got != v or isinstance(got, float) or not isinstance(got, int):
                return ("Python module: %s == %r, integer arithmetic gives %d" % (n, got, v), det)
    s0 = mod.S0()
    for k, n, e, v, o in sizes:
        try:
            got_len = len(getattr(s0, n))
        except Exception as ex:
            return ("Python: the array S0.%s (extent %d by integer arithmetic) cannot be created: %s: %s" % (
                n, v, type(ex).__name__, str(ex)[:200]), det)
        if got_len != v:
            return ("Python: len(S0.%s) == %d, integer arithmetic gives %d" % (n, got_len, v), det)
    if mod.S0._SIZE != want_size:
        return ("Python: S0._SIZE == %d, the array sizes add up to %d" % (mod.S0._SIZE, want_size), det)
    u0 = mod.U0()
    for k, n, e, v, o in d.items:
        if k == 'disc':
            try:
                u0.discriminator = v
            except Exception as ex:
                return ("Python: U0 does not accept discriminator %d (arm %s): %s" % (v, n, ex), det)
            if u0.discriminator != v or u0.get_discriminated().name != n:
                return ("Python: discriminator %d selects %s, expected %s" % (v, u0.get_discriminated().name, n), det)
    if cpp:
        return _check_cpp(d, work2, det)
    return None


def _no_octal(e):
    if isinstance(e, Num):
        return Num(e.value, 16 if e.base == 16 else 10)
    if isinstance(e, Name):
        return e
    if isinstance(e, Neg):
        return Neg(_no_octal(e.a))
    if isinstance(e, Paren):
        return Paren(_no_octal(e.a))
    return Bin(e.op, _no_octal(e.a), _no_octal(e.b))


def _check_cpp(d, work, det):
    lines = ['#include "m.pp.hpp"', '#include "m.ppf.hpp"', '#include <iostream>', 'int main() {']
    all_items = (d.inc.items if d.inc else []) + d.items
    for k, n, e, v, o in all_items:
        if k in ('const', 'enumerator'):
            lines.append('  std::cout << "raw %s " << (long long)(::%s) << "\\n";' % (n, n))
            lines.append('  std::cout << "full %s " << (long long)(prophy::generated::%s) << "\\n";' % (n, n))
        elif k == 'size':
            lines.append('  std::cout << "raw S0.%s " << (long long)(sizeof(((::S0*)0)->%s) / sizeof(((::S0*)0)->%s[0]))'
                         ' << "\\n";' % (n, n, n))
            lines.append('  std::cout << "full S0.%s " << (long long)(prophy::generated::S0().%s.size()) << "\\n";' % (n, n))
        elif k == 'disc':
            lines.append('  std::cout << "raw U0.%s " << (long long)(unsigned)(::U0::discriminator_%s) << "\\n";' % (n, n))
            lines.append('  std::cout << "full U0.%s " << (long long)(unsigned)(prophy::generated::U0::discriminator_%s)'
                         ' << "\\n";' % (n, n))
    lines.append('  return 0; }')
    with open(os.path.join(work, 'drv.cpp'), 'w') as f:
        f.write('\n'.join(lines))
    try:
        cpph.compile_cxx(['drv.cpp'], os.path.join(work, 'drv'), work, sanitize=False)
    except cpph.BuildFailed as ex:
        return ("generated C++ headers do not compile: %s" % str(ex)[-400:], det)
    out = subprocess.run([os.path.join(work, 'drv')], stdout=subprocess.PIPE, timeout=600).stdout.decode()
    got = {}
    for l in out.splitlines():
        which, name, val = l.split()
        got[(which, name)] = int(val)
    for k, n, e, v, o in all_items:
        key = n if k in ('const', 'enumerator') else ('%s.%s' % (o, n))
        for which in ('raw', 'full'):
            g = got.get((which, key))
            want = v
            if k in ('const',) and v < 0:
                want = v
            if g != want and not (k == 'const' and g is not None and (g - want) % (1 << 32) == 0 and abs(v) >= (1 << 31)):
                return ("C++ %s codec: %s == %r, integer arithmetic gives %d" % (which, key, g, v), det)
    return None


def item_features(e):
    f = set()
    if len(expr.op_precs(e)) >= 2:
        f.add('mixed_precedence')
    if e.names():
        f.add('name_reference')
    if expr.has_nondecimal(e):
        f.add('nondecimal_literal')
    if any(isinstance(x, Bin) and x.op == '/' for x in _walk(e)):
        f.add('division')
    if any(isinstance(x, Bin) and x.op in ('<<', '>>') for x in _walk(e)):
        f.add('shift')
    if any(isinstance(x, Neg) for x in _walk(e)):
        f.add('unary_minus')
    return f


def _walk(e):
    yield e
    if isinstance(e, Bin):
        for x in _walk(e.a):
            yield x
        for x in _walk(e.b):
            yield x
    elif isinstance(e, (Neg, Paren)):
        for x in _walk(e.a):
            yield x


def body_factory(cpp):
    def body(d, stats):
        bad = check_doc(d, stats, cpp)
        syn = 'isar' if d.isar else 'prophy'
        env = {}
        for k, n, e, v, o in (d.inc.items if d.inc else []) + d.items:
            feats = item_features(e) | {k, syn} | ({'across_include'} if d.inc and any(x.startswith('IK') for x in e.names()) else set())
            text = expr.render(e, syn)
            stats.case((syn, k, text, tuple(sorted((x, env.get(x)) for x in e.names()))),
                       bool(feats & {'mixed_precedence', 'name_reference', 'nondecimal_literal'}), feats,
                       sample=lambda: {'syntax': syn, 'use': k, 'expression': text, 'value': v})
            if k in ('const', 'enumerator'):
                env[n] = v
        if bad:
            fid = classify(bad, d)
            if fid:
                stats.known_finding(fid, {'files': bad[1].get('files'), 'what': bad[0][:200]})
                return
            raise Violation(bad[0], {'details': bad[1], 'isar': d.isar})
    return body


def classify(bad, d):
    kf = runner.known_findings()
    for fid, fn in C14_PREDICATES.items():
        if kf.is_open(fid, ID) and fn(bad, d):
            return fid
    return None


C14_PREDICATES = {}


def worker(widx, seed, tier, stats):
    n = {'quick': 120, 'thorough': 3000}[tier]
    runner.run_given(docs(isar=False), body_factory(False), seed, n, stats)
    runner.run_given(docs(isar=True), body_factory(False), seed + 1, n // 2, stats)
    if not stats.violations:
        runner.run_given(docs(isar=False), body_factory(True), seed + 2, {'quick': 4, 'thorough': 80}[tier], stats,
                         shrink=(tier == 'thorough'))


def e1_reproduction(stats):
    """Open finding E1 stays backed by a live reproduction (the generator avoids the shape while it is open)."""
    if not runner.known_findings().is_open('E1', ID):
        return
    import shutil
    work = pyh.fresh_dir('c14e1')
    try:
        files = {'inc.xml': '<x><enum name="IE0"><enum-member name="IE0_a" value="3"/></enum></x>',
                 'm.xml': '<x><xi:include xmlns:xi="http://www.w3.org/2001/XInclude" href="inc.xml"/>'
                          '<constant name="K" value="IE0_a + 1"/></x>'}
        for fn, text in files.items():
            with open(os.path.join(work, fn), 'w') as f:
                f.write(text)
        pyh.run_prophyc(['--isar', '--python_out', work, os.path.join(work, 'm.xml'), os.path.join(work, 'inc.xml')])
        try:
            work, mod = import_py(work, None)
            ok = getattr(mod, 'K', None) == 4
        except NameError as ex:
            if 'IE0_a' in str(ex):
                stats.known_finding('E1', {'files': files, 'error': 'NameError: %s' % ex})
                return
            raise
        if not ok:
            stats.violations.append({'what': 'E1 reproduction: K is %r, integer arithmetic gives 4' % getattr(mod, 'K', None),
                                     'case': {'details': {'files': files}}})
    finally:
        shutil.rmtree(work, ignore_errors=True)


def regress(stats):
    """Replay tier: saved inputs {isar, files: {name: text} (main file m.xml / m.prophy), expect: {consts: {name: int},
    lengths: {'Struct.field': n}}} of defects found earlier; the generated Python module must give exactly these."""
    import glob
    import json
    import shutil
    for path in sorted(glob.glob(os.path.join(runner.VERIF, 'regress', ID, '*.json'))):
        d = json.load(open(path))['case']['details']
        work = pyh.fresh_dir('c14r')
        stats.notes['regress_cases'] += 1
        try:
            for fn, text in d['files'].items():
                with open(os.path.join(work, fn), 'w') as f:
                    f.write(text)
            main = 'm.xml' if d['isar'] else 'm.prophy'
            try:
                pyh.run_prophyc((['--isar'] if d['isar'] else []) + ['--python_out', work, os.path.join(work, main)])
                work, mod = import_py(work, None)
                got = {}
                for n in d['expect'].get('consts', {}):
                    got[n] = getattr(mod, n, None)
                for n in d['expect'].get('lengths', {}):
                    sname, fname = n.split('.')
                    got[n] = len(getattr(getattr(mod, sname)(), fname))
                want = dict(d['expect'].get('consts', {}), **d['expect'].get('lengths', {}))
                bad = {k: (got[k], want[k]) for k in want if got[k] != want[k] or isinstance(got[k], float)}
                if bad:
                    stats.violations.append({'what': 'regression input %s: (got, integer arithmetic) %r' % (
                        os.path.basename(path), bad), 'case': {'details': d}})
            except Exception as ex:
                stats.violations.append({'what': 'regression input %s: %s: %s' % (
                    os.path.basename(path), type(ex).__name__, str(ex)[:200]), 'case': {'details': d}})
        finally:
            shutil.rmtree(work, ignore_errors=True)


def run(tier, seed):
    t0 = time.time()
    stats = runner.run_workers(__name__, 'worker', seed, tier)
    regress(stats)
    e1_reproduction(stats)
    return runner.finish(ID, tier, seed, LEVEL, RULE, stats, t0, ASSUME)


def replay(payload):
    files = payload['case']['details'].get('files', {})
    print("files of the recorded violation:")
    for fn, text in files.items():
        print('---', fn)
        print(text)
    print("re-running with the recorded seed and tier (the run is a pure function of them):")
    return run(payload.get('tier', 'quick'), payload.get('seed', 1))
