"""C12 - whatever prophyc accepts, every back-end can realise; rule breakers are rejected.

generator : (a) valid generated schemas; (b) the same after exactly one rule-breaking edit from a catalogue that
            mirrors the property's list; (c) token-level mutants of valid schema text.
oracle    : for *every* input: if `prophyc --python_out --cpp_out --cpp_full_out` succeeds then the generated module
            imports and g++ -fsyntax-only accepts the generated .ppf.cpp and .pp.cpp against the shipped headers.
            For (a) prophyc must succeed (schemas with several arrays per sizer are compiled without --cpp_full_out,
            which documents that refusal).  For (b) prophyc must fail with a `path:line:col: error:` diagnostic.
"""
import os
import re
import shutil
import time

from hypothesis import strategies as st

from vlib import gen, ir, pyh, cpph, runner, common
from vlib.ir import (NUMERIC, Const, Enum, Typedef, Struct, Union, Member, Arm, Schema,
                     PLAIN, OPT, FIXARR, DYNARR, LIMARR, GREEDY, EXTARR, FIXED, DYNAMIC, UNLIMITED)
from vlib.refwire import RefWire
from vlib.runner import Violation

ID = 'C12'
LEVEL = 'exploration'
RULE = ("cases = schema texts: (a) valid generated schemas, (b) one rule-breaking edit each (rules R1-R15 of the "
        "catalogue), (c) token-level mutants; non-trivial = every (b) case, and (a)/(c) cases that prophyc accepted "
        "and that nest a composite in another; distinct = distinct schema text")
ASSUME = ["negative enumerators in [-2^31, 0) are not used as rule breakers (C++ accepts them)",
          "g++ -fsyntax-only stands for 'compiles against the shipped headers'"]
DIAG = re.compile(r':\d+:\d+: error: ')


def compile_all(text, cpp_full=True, syntax=True):
    """-> ('refused', message) | ('ok', None) | ('unusable', what)"""
    work = pyh.fresh_dir('c12')
    try:
        src = os.path.join(work, 'm.prophy')
        with open(src, 'w') as f:
            f.write(text)
        args = [src, '--python_out', work, '--cpp_out', work] + (['--cpp_full_out', work] if cpp_full else [])
        try:
            pyh.run_prophyc(args)
        except pyh.CompileFailed as ex:
            return 'refused', str(ex)
        with open(os.path.join(work, 'm.py')) as f:
            py = f.read()
        try:
            ns = pyh.load_module_text(py)
        except Exception as ex:
            return 'unusable', "prophyc accepted the schema but the generated Python module does not import: %s: %s" % (
                type(ex).__name__, str(ex)[:300])
        if 'XNS' in ns:
            # usable = at least the default value of the extras' struct can be encoded and read back
            try:
                for e in '<>':
                    x = ns['XNS']()
                    data = x.encode(e)
                    y = ns['XNS']()
                    if len(data) != ns['XNS']._SIZE or y.decode(data, e) != len(data) or y.encode(e) != data:
                        return 'unusable', "the default value of XNS (enumerators / discriminators in [-2^31, 2^32)) does not round-trip"
            except Exception as ex:
                return 'unusable', ("prophyc accepted enumerators / discriminators that the generated Python codec cannot "
                                    "encode: %s: %s" % (type(ex).__name__, str(ex)[:200]))
        if syntax:
            for fn in (['m.ppf.cpp'] if cpp_full else []) + ['m.pp.cpp']:
                try:
                    cpph.compile_cxx([fn], None, work, sanitize=False, syntax_only=True)
                except cpph.BuildFailed as ex:
                    msg = [l for l in ex.log.splitlines() if 'error' in l][:2]
                    return 'unusable', "prophyc accepted the schema but generated %s does not compile: %s" % (
                        fn, ' | '.join(msg)[:400])
        return 'ok', None
    finally:
        shutil.rmtree(work, ignore_errors=True)


# ------------------------------------------------------------------------------------ rule breakers
def _struct_text(name, members_text):
    return 'struct %s\n{\n%s\n};\n' % (name, '\n'.join('    ' + m for m in members_text))


def breakers(draw, schema):
    """Return (rule id, text) : the valid schema text plus one declaration that breaks exactly one rule."""
    rw = RefWire(schema)
    base = schema.to_prophy()
    by_stiff = {FIXED: [], DYNAMIC: [], UNLIMITED: []}
    for c in schema.composites():
        by_stiff[rw.layout(c.name)[2]].append(c.name)
    # helper types of every non-fixed flavour are always available: directly dynamic, dynamic through nesting,
    # directly unlimited, unlimited through a nested tail with and without an own dynamic array
    pre = ('struct XDyn\n{\n    u8 a<>;\n};\n'
           'struct XDynNest\n{\n    u16 h;\n    XDyn d;\n    u8 t;\n};\n'
           'struct XUnl\n{\n    u16 a<...>;\n};\n'
           'struct XUnlNest\n{\n    u64 id;\n    XUnl tail;\n};\n'
           'struct XUnlMid\n{\n    u32 ids<>;\n    XUnl tail;\n};\n')
    by_stiff[DYNAMIC] += ['XDyn', 'XDynNest']
    by_stiff[UNLIMITED] += ['XUnl', 'XUnlNest', 'XUnlMid']
    dyn = draw(st.sampled_from(by_stiff[DYNAMIC]))
    unl = draw(st.sampled_from(by_stiff[UNLIMITED]))
    nonfixed = draw(st.sampled_from([dyn, unl]))
    # the sizer's name: arbitrary, or the name prophyc itself gives the counter of `a<>` / `a<N>`
    sn = draw(st.sampled_from(['n', 'len', 'num_of_a', 'num_of_a', 'a_len', 'num_of_b']))
    rules = {
        'R1a greedy array not last': _struct_text('XBad', ['u8 a<...>;', 'u8 b;']),
        'R1b unlimited struct not last': _struct_text('XBad', ['%s a;' % unl, 'u8 b;']),
        'R2a unlimited struct in dynamic array': _struct_text('XBad', ['%s a<>;' % unl]),
        'R2b unlimited struct in greedy array': _struct_text('XBad', ['%s a<...>;' % unl]),
        'R2c unlimited struct in externally sized array': _struct_text('XBad', ['u8 n;', '%s a<@n>;' % unl]),
        'R3 dynamic/unlimited struct in fixed array': _struct_text('XBad', ['%s a[2];' % nonfixed]),
        'R4 dynamic/unlimited struct in limited array': _struct_text('XBad', ['%s a<2>;' % nonfixed]),
        'R5 dynamic/unlimited struct optional': _struct_text('XBad', ['%s* a;' % nonfixed]),
        'R6 dynamic/unlimited struct as union arm': 'union XBad\n{\n    1: %s a;\n    2: u8 b;\n};\n' % nonfixed,
        'R8 sizer missing': _struct_text('XBad', ['u8 a<@%s>;' % sn]),
        'R9 sizer after its array': _struct_text('XBad', ['u8 a<@%s>;' % sn, 'u8 %s;' % sn]),
        'R10 sizer optional': _struct_text('XBad', ['u32* %s;' % sn, 'u8 a<@%s>;' % sn]),
        'R11a sizer float': _struct_text('XBad', ['float %s;' % sn, 'u8 a<@%s>;' % sn]),
        'R11b sizer composite': 'struct XS\n{\n    u8 q;\n};\n' + _struct_text('XBad', ['XS %s;' % sn, 'u8 a<@%s>;' % sn]),
        'R11c sizer is a fixed array': _struct_text('XBad', ['u8 %s[2];' % sn, 'u8 a<@%s>;' % sn]),
        'R11d sizer is a dynamic array': _struct_text('XBad', ['u16 %s<>;' % sn, 'u8 a<@%s>;' % sn]),
        'R11e sizer is an enum': 'enum XSE\n{\n    XSE_a = 1\n};\n' + _struct_text('XBad', ['XSE %s;' % sn, 'u8 a<@%s>;' % sn]),
        'R11f sizer typedef of double': 'typedef double XTD;\ntypedef XTD XTD2;\n' + _struct_text('XBad', ['XTD2 %s;' % sn, 'u8 a<@%s>;' % sn]),
        'R12a duplicate field name': _struct_text('XBad', ['u8 a;', 'u16 a;']),
        'R12b duplicate type name': _struct_text('XBad', ['u8 a;']) + _struct_text('XBad', ['u8 b;']),
        'R12c duplicate enumerator name': 'enum XE1\n{\n    XE_a = 1\n};\nenum XE2\n{\n    XE_a = 2\n};\n',
        'R12e enum named like its own enumerator': 'enum XE1\n{\n    XE_a = 1,\n    XE1 = 2\n};\n' + _struct_text('XBad', ['XE1 a;']),
        'R12f struct named like an earlier enumerator': 'enum XE1\n{\n    XBad = 2\n};\n' + _struct_text('XBad', ['u8 a;']),
        'R12g definition named like a built-in type': 'typedef u16 %s;\n' % draw(st.sampled_from(['r32', 'r64', 'byte'])) + _struct_text('XBad', ['u8 a;']),
        'R12d duplicate arm name': 'union XBad\n{\n    1: u8 a;\n    2: u16 a;\n};\n',
        'R13 duplicate discriminator': 'union XBad\n{\n    1: u8 a;\n    1: u16 b;\n};\n',
        'R14a array size zero': _struct_text('XBad', ['u8 a[0];']),
        'R14b array size negative': _struct_text('XBad', ['u8 a<-1>;']),
        'R14c limited size zero by expression': 'const XZ = 2;\n' + _struct_text('XBad', ['u8 a<XZ - 2>;']),
        'R15a enumerator >= 2^32': 'enum XE\n{\n    XE_a = 4294967296\n};\n' + _struct_text('XBad', ['XE a;']),
        'R15b enumerator < -2^31': 'enum XE\n{\n    XE_a = -2147483649\n};\n' + _struct_text('XBad', ['XE a;']),
        'R15c discriminator >= 2^32': 'union XBad\n{\n    0x100000000: u8 a;\n};\n',
        'R15d discriminator < -2^31': 'union XBad\n{\n    -2147483649: u8 a;\n};\n',
    }
    rid = draw(st.sampled_from(sorted(rules)))
    return rid, base + '\n' + pre + rules[rid]


TOKENS = re.compile(r'[A-Za-z_]\w*|0x[0-9a-fA-F]+|\d+|<<|>>|\.\.\.|[^\sA-Za-z_0-9]')


def token_mutant(draw, text):
    toks = TOKENS.findall(text)
    if not toks:
        return text
    k = draw(st.integers(1, 3))
    for _ in range(k):
        i = draw(st.integers(0, len(toks) - 1))
        op = draw(st.integers(0, 4))
        if op == 0:
            del toks[i]
        elif op == 1:
            toks.insert(i, toks[i])
        elif op == 2 and len(toks) > 1:
            j = draw(st.integers(0, len(toks) - 1))
            toks[i], toks[j] = toks[j], toks[i]
        elif op == 3:
            toks[i] = draw(st.sampled_from(['u8', 'u64', '*', '<', '>', '[', ']', '{', '}', ';', '0', '-1', '<...>', '@',
                                            'struct', 'union', 'bytes', 'float', 'x', '4294967296', ':', ',', '=']))
        else:
            j = draw(st.integers(0, len(toks) - 1))
            toks[i] = toks[j]
        if not toks:
            break
    return ' '.join(toks) + '\n'


def valid_extras(draw):
    """Legal but unusual values: enumerators and discriminators anywhere in [-2^31, 2^32) (the documented 32-bit
    range; distinct modulo 2^32), used by a struct whose default value must be encodable (see compile_all)."""
    neg = st.integers(-(1 << 31), -1)
    pos = st.one_of(st.integers(0, 9), st.integers(0, (1 << 32) - 1), st.sampled_from([(1 << 31) - 1, 1 << 31, (1 << 32) - 1]))
    vals = draw(st.lists(st.one_of(neg, pos), min_size=2, max_size=4, unique_by=lambda v: v % (1 << 32)))
    discs = draw(st.lists(st.one_of(neg, pos), min_size=2, max_size=3, unique_by=lambda v: v % (1 << 32)))
    arms = ['u8', 'XNE', 'u64']
    return ('enum XNE\n{\n%s\n};\n' % ',\n'.join('    XNE_%d = %d' % (i, v) for i, v in enumerate(vals)) +
            'union XNU\n{\n%s\n};\n' % '\n'.join('    %d: %s a%d;' % (d, arms[i], i) for i, d in enumerate(discs)) +
            'struct XNS\n{\n    XNE e;\n    XNU u;\n    XNE es<2>;\n    XNU* ou;\n};\n')


@st.composite
def cases(draw, opts):
    schema = draw(gen.schemas(opts))
    kind = draw(st.sampled_from(['valid', 'breaker', 'breaker', 'mutant']))
    if kind == 'valid':
        text = schema.to_prophy()
        if draw(st.booleans()):
            text += valid_extras(draw)
        return kind, None, schema, text
    if kind == 'breaker':
        rid, text = breakers(draw, schema)
        return kind, rid, schema, text
    return kind, None, schema, token_mutant(draw, schema.to_prophy())


def has_shared_sizer(schema):
    return any(len(v) > 1 for s in schema.structs() for v in s.sizers().values())


def check_text(kind, rid, schema, text, syntax=True):
    """-> None | (what, details)"""
    det = {'text': text, 'kind': kind, 'rule': rid}
    cpp_full = not has_shared_sizer(schema)
    try:
        status, msg = compile_all(text, cpp_full, syntax)
    except Exception as ex:
        if kind == 'valid':
            return ("prophyc raised %s on a valid schema: %s" % (type(ex).__name__, str(ex)[:200]),
                    dict(det, exception=common.exc_info(ex)))
        return None          # crashes on invalid text are C13's business
    if status == 'unusable':
        return (msg, det)
    if kind == 'valid' and status == 'refused':
        return ("prophyc refused a schema that follows every documented rule: %s" % msg[:300], det)
    if kind == 'breaker':
        if status == 'ok':
            return ("schema breaking rule %s was accepted" % rid, det)
        if not DIAG.search(msg or ''):
            return ("schema breaking rule %s was refused without a file:line:col diagnostic: %s" % (rid, msg[:200]),
                    det)
    return None


def body(case, stats):
    kind, rid, schema, text = case
    bad = check_text(kind, rid, schema, text)
    nested = 'nested_composite' in set().union(*[gen.schema_features(RefWire(schema), c.name)
                                                 for c in schema.composites()])
    stats.case(text, kind == 'breaker' or nested, (kind, rid.split()[0] if rid else kind),
               sample=lambda: {'kind': kind, 'rule': rid, 'text': text})
    if bad:
        fid = classify(bad, rid)
        if fid:
            stats.known_finding(fid, {'rule': rid, 'text': text[-400:]})
            return
        raise Violation(bad[0], {'details': bad[1]})


def classify(bad, rid):
    kf = runner.known_findings()
    if kf.is_open('N1', ID) and ('with same name as class' in bad[0] or 'changes meaning of' in bad[0]):
        return 'N1'
    return None


def gen_opts():
    return gen.GenOpts(big_sizes=False, max_decls=5, avoid=common.avoid_set(ID), block_focus=4)


def worker(widx, seed, tier, stats):
    n = {'quick': 30, 'thorough': 500}[tier]
    runner.run_given(cases(gen_opts()), body, seed, n, stats, shrink=(tier == 'thorough'))


def regress(stats):
    import glob, json
    for path in sorted(glob.glob(os.path.join(runner.VERIF, 'regress', ID, '*.json'))):
        payload = json.load(open(path))
        d = payload['case']['details']
        bad = check_text(d['kind'], d.get('rule'), Schema([]), d['text'])
        stats.notes['regress_cases'] += 1
        if bad:
            stats.violations.append({'what': 'regression input %s: %s' % (os.path.basename(path), bad[0]),
                                     'case': payload['case']})


def n1_reproduction(stats):
    if not runner.known_findings().is_open('N1', ID):
        return
    for text in ('struct id\n{\n    bytes id<>;\n};\n',
                 'union U1\n{\n    0: u8 a;\n    1: u8 b;\n};\nstruct S2\n{\n    U1 a;\n    U1 U1;\n};\n'):
        bad = check_text('valid', None, Schema([]), text)
        if bad and classify(bad, None) == 'N1':
            stats.known_finding('N1', {'text': text})


def run(tier, seed):
    t0 = time.time()
    stats = runner.run_workers(__name__, 'worker', seed, tier)
    regress(stats)
    n1_reproduction(stats)
    return runner.finish(ID, tier, seed, LEVEL, RULE, stats, t0, ASSUME)


def replay(payload):
    d = payload['case']['details']
    bad = check_text(d['kind'], d.get('rule'), Schema([]), d['text'])
    if bad:
        print("VIOLATION property=%s replay=(given)\n  %s\n%s" % (ID, bad[0], d['text']))
        return 1
    print("replay: property holds on this case")
    return 0
