"""C07 - C++ full decode is memory-safe and exact on arbitrary bytes.

fault enumeration (same fault set as C06) applied to canonical encodings of generated messages, both byte orders:
every proper prefix, every control word x boundary values, generated bit flips, extensions, random strings.
oracle: the ASan+UBSan driver answers every vector with a boolean (no sanitizer report, no abort, no allocation
above the 64 MiB cap for inputs < 64 KiB, no timeout); ok => get_byte_size() == input size and the re-encoded
vector has exactly the input size.  thorough tier adds libFuzzer campaigns (see tools/fuzz_cpp.py).
"""
import time

from vlib import gen, cpph, cppcamp, runner, common
from props import c06

ID = 'C07'
LEVEL = 'fault_enumeration'
RULE = ("cases = (generated schema, composite type, valid value, byte order, fault) with faults = every proper "
        "prefix, every control word (counter/flag/discriminator/enum via the reference span map) x boundary values, "
        "generated bit flips, extensions, random byte strings; inputs sit in exact-size heap blocks (red zones); "
        "non-trivial = the fault rewrites a control word, flips a bit inside a field, extends the input or cuts it "
        "inside a field; distinct = distinct hash of (schema text, type, byte order, faulted bytes)")
ASSUME = ["g++ 12 x86-64, ASan+UBSan (-fno-sanitize=enum: generated code stores wire integers in enum variables by "
          "design and validates them in a switch)", "allocation cap 64 MiB per request (ASAN max_allocation_size_mb)",
          "120 s timeout per driver batch", "input buffers are 8-aligned heap blocks of exactly the input's size"]


class Campaign(cppcamp.FullCampaign):
    prop = ID
    nontrivial = frozenset({'nontrivial_fault'})
    group = 4
    values_per_type = 1

    def __init__(self):
        self.extra = {}

    def vectors(self, rw, py, tname, val):
        flips, ext, rnd = self.extra.get(tname.split('_', 1)[0] if tname.startswith('P') else None,
                                        self.extra.get(None, ([], [b'\x00'], [])))
        out = []
        for e in '<>':
            lims = c06.limits_of(rw.s, tname)
            for desc, data, nontrivial, _ in c06.faults_for(rw, tname, val, e, flips, ext, lims):
                label = '%s%s' % ('!' if nontrivial else '', ':'.join(str(x) for x in desc))
                out.append((label, 'dec', e, data, 0))
                if e == '<' and desc[0] in ('control', 'flip'):
                    out.append((label, 'dec', '=', data, 0))      # the native-order decoder (host is little-endian)
            for r in rnd:
                out.append(('!random:%d' % len(r), 'dec', e, r, 0))
                if e == '<':
                    out.append(('!random:%d' % len(r), 'dec', '=', r, 0))
        return out

    def features(self, rw, tname, val):
        return set()

    def judge(self, rw, tname, val, vec, res):
        label, op, e, data, k = vec
        if 'crash' in res:
            return ("C++ decode of arbitrary bytes died: %s" % res['crash'], {'stderr': res.get('stderr', '')[-1500:]})
        n = len(data)
        if op == 'dec' and 'rok' in res:
            # the same bytes decoded into an object that earlier vectors had already been decoded into
            if bool(res['rok']) != bool(res.get('ok')):
                return ("decode returned %s into a fresh object but %s into a previously used object of the same type" % (
                    bool(res.get('ok')), bool(res['rok'])), {})
            if res['rok'] and (res['rgbs'] != n or len(res['rencL']) != n):
                return ("decode into a previously used object returned true for %d bytes but the object then holds a "
                        "message of %d bytes (re-encoded: %d bytes): earlier contents survived" % (
                            n, res['rgbs'], len(res['rencL'])), {'reencoded': res['rencL'].hex()})
        if not res.get('ok'):
            return None
        enc = res['encB'] if e == '>' else (res['encL'] if e == '<' else res['encN'])
        if res['gbs'] != n or len(enc) != n:
            return ("decode returned true for %d bytes but the message is %d bytes (re-encoded: %d bytes)" % (
                n, res['gbs'], len(enc)), {'reencoded': enc.hex()})
        return None

    def process_chunk(self, chunk, stats):
        # stats.case() is fed through features(); mark non-triviality through the label instead
        orig_case = stats.case

        def case(key, nontrivial, classes=(), sample=None):
            label = key[4]
            orig_case(key, label.startswith('!'), (label.lstrip('!').split(':')[0],), sample)
        stats.case = case
        try:
            cppcamp.FullCampaign.process_chunk(self, chunk, stats)
        finally:
            stats.case = orig_case

    def worker(self, widx, seed, tier, stats, n_tus):
        opts = self.gen_opts()
        opts.max_decls = 4
        raw = cppcamp.collect_cases(c06.cases(opts), seed, n_tus * self.group)
        for i in range(0, len(raw), self.group):
            part = raw[i:i + self.group]
            self.extra = {'P%d' % j: (c[2], c[3], c[4]) for j, c in enumerate(part)}
            self.extra[None] = ([(0.5, 0)], [b'\x00'], [])
            self.process_chunk([(c[0], c[1]) for c in part], stats)
            if stats.violations:
                break


CAMPAIGN = Campaign()


def check_case(schema, tname, val, fault=None):
    if fault is None:
        return CAMPAIGN.check_case(schema, tname, val)
    sub = cppcamp.reachable_decls(schema, tname)
    tu = CAMPAIGN.build(sub)
    try:
        data = bytes.fromhex(fault['input'])
        vec = ('replay', 'dec', fault['endianness'], data, 0)
        res = tu.run(['dec %s %s %s 0' % (tname, fault['endianness'], cpph.hexarg(data))])[0]
        from vlib.refwire import RefWire
        bad = CAMPAIGN.judge(RefWire(sub), tname, val, vec, res)
        return CAMPAIGN._describe(bad, vec) if bad else None
    finally:
        tu.cleanup()


def fuzz_campaign(widx, seed, stats, runs=600000, max_time=150):
    """libFuzzer (clang++ -fsanitize=fuzzer,address,undefined) with the C07 oracle inside the target."""
    from vlib.refwire import RefWire
    opts = CAMPAIGN.gen_opts()
    opts.max_decls = 4
    cases_ = cppcamp.collect_cases(gen.schema_with_values(opts, values_per_type=1), seed + 77, 4)
    merged, vectors = cpph.merge_cases(cases_)
    try:
        tu = cpph.FuzzTU(merged)
    except (cpph.BuildFailed, Exception) as ex:
        stats.notes['fuzz_build_failed'] += 1
        return
    try:
        rw = RefWire(merged)
        comps = [c.name for c in merged.composites()]
        seeds = []
        if widx % 2 == 0:      # even workers start from canonical encodings, odd workers from an empty corpus
            for _, tn, v in vectors:
                for ei, e in enumerate('<>'):
                    seeds.append(bytes([comps.index(tn), ei]) + rw.encode(tn, v, e)[0])
        ok, info = tu.run(seed % 100000 + widx, runs, seeds, max_time=max_time)
        stats.notes['libfuzzer_execs'] += info.get('execs', 0)
        stats.notes['libfuzzer_campaigns'] += 1
        if not ok:
            data = info.get('artifact', b'')
            tname = comps[data[0] % len(comps)] if data else comps[0]
            e = '<>='[data[1] % 3] if len(data) > 1 else '<'
            payload = common.case_payload(merged, tname, None, {'input': data[2:].hex(), 'endianness': e,
                                                                'summary': info.get('summary'),
                                                                'stderr': info.get('stderr', '')[-1500:]})
            stats.violations.append({'what': 'libFuzzer: C++ decode of arbitrary bytes failed: %s' % info.get('summary'),
                                     'case': payload})
    finally:
        tu.cleanup()


def worker(widx, seed, tier, stats):
    CAMPAIGN.worker(widx, seed, tier, stats, {'quick': 2, 'thorough': 30}[tier])
    if tier == 'thorough' and not stats.violations:
        fuzz_campaign(widx, seed, stats)


def run(tier, seed):
    t0 = time.time()
    stats = runner.run_workers(__name__, 'worker', seed, tier)
    common.run_regress(ID, stats, check_case)
    return runner.finish(ID, tier, seed, LEVEL, RULE, stats, t0, ASSUME)


def replay(payload):
    schema, tname, val = common.case_from_payload(payload)
    det = payload['case'].get('details', {})
    fault = {'input': det['input'], 'endianness': det['endianness']} if 'input' in det else None
    bad = check_case(schema, tname, val, fault)
    if bad:
        print("VIOLATION property=%s replay=(given)\n  %s" % (ID, bad[0]))
        return 1
    print("replay: property holds on this case")
    return 0
