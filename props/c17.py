"""C17 - front-ends agree: isar (+patch) and prophy text give the same wire layout.

generator : schemas rendered (a) in the prophy language and (b) as isar XML using the documented dimension forms
            (size / size2, isVariableSize in <struct> and <message>, variableSizeFieldName="@...", optional flag,
            unions, typedefs by type= and primitiveType=, enums with negative values).  What isar cannot say, or a
            randomly chosen part of what it can, is *degraded* in the XML (greedy -> array of 1, dynamic / limited ->
            counter + fixed array, wrong member type, renamed / extra / missing member, struct written as union) and a
            patch file with the documented rules restores it.
oracle    : per type, model (size, alignment, stiffness) from both front-ends are identical and equal RefWire; the
            Python codecs generated from both produce identical bytes for generated values.
            Patch scripts: rules naming absent messages leave every output byte-identical; a rule that cannot apply
            (unknown member, wrong arity, unknown action, limited without sizer, struct on a struct) fails the run.
"""
import os
import shutil
import time

from hypothesis import strategies as st

from vlib import gen, ir, pyh, runner, common
from vlib.ir import (NUMERIC, Const, Enum, Typedef, Struct, Union, Member, Arm, Schema,
                     PLAIN, OPT, FIXARR, DYNARR, LIMARR, GREEDY, EXTARR)
from vlib.refwire import RefWire
from vlib.runner import Violation

ID = 'C17'
LEVEL = 'exploration'
RULE = ("cases = (generated schema, isar rendering with generated degradations + restoring patch, generated values); "
        "plus generated patch scripts (absent names / inapplicable rules); non-trivial = the schema uses >= 2 "
        "different dimension forms or needs >= 1 patch rule; distinct = distinct hash of (xml text, patch text)")
ASSUME = ["counters of dynamic / limited arrays are named num_of_<field> on both sides",
          "negative enum values on the isar side correspond to 0x100000000+v on the prophy side (parser's rule)"]


def model_index(members, upto):
    """Index in prophyc's member list (dynamic / limited arrays contribute a counter member)."""
    n = 0
    for m in members[:upto]:
        n += 2 if m.kind in (DYNARR, LIMARR) else 1
    return n


def render_isar_struct(draw, schema, st_, patch):
    """-> xml text of one struct, appending needed patch lines."""
    parts = []
    forms = set()
    as_message = False
    if not any(m.kind == LIMARR for m in st_.members) and draw(st.integers(0, 3)) == 0:
        as_message = True
    sizers = st_.sizers()
    inserted = None
    # optional degradation: struct written as union
    if (len(st_.members) <= 4 and all(m.kind == PLAIN and not m.is_bytes for m in st_.members) and
            all(RefWire(schema).elem_layout(m.type)[2] == ir.FIXED for m in st_.members) and
            draw(st.integers(0, 5)) == 0):
        arms = ''.join('<member name="%s" type="%s" discriminatorValue="%d"/>' % (m.name, m.type, i + 1)
                       for i, m in enumerate(st_.members))
        patch.append('%s struct' % st_.name)
        forms.add('patch:struct')
        return '<union name="%s">%s</union>' % (st_.name, arms), forms
    pending_insert = []
    for idx, m in enumerate(st_.members):
        tname = 'byte' if m.is_bytes else m.type
        deg = draw(st.integers(0, 9))
        name = m.name
        is_sizer = m.name in sizers
        # rename (members nobody refers to by name)
        if deg == 0 and not is_sizer and m.kind in (PLAIN, OPT, FIXARR):
            name = m.name + '_old'
            patch.append('%s rename %s %s' % (st_.name, name, m.name))
            forms.add('patch:rename')
        # wrong type restored by a type rule
        if deg == 1 and not is_sizer and not m.is_bytes and m.kind in (PLAIN, FIXARR):
            patch.append('%s type %s %s' % (st_.name, m.name if name == m.name else name, tname))
            tname = 'u8' if tname != 'u8' else 'u16'
            forms.add('patch:type')
            if name != m.name:
                # rule order: rename comes first in the file, so the type rule must use the *new* name
                patch[-1] = '%s type %s %s' % (st_.name, m.name, 'byte' if m.is_bytes else m.type)
        # missing member restored by insert (plain scalar members only, applied last)
        if deg == 2 and not is_sizer and m.kind == PLAIN and name == m.name and tname == m.type and \
                len(st_.members) > 1 and inserted is None:
            inserted = True
            pending_insert.append('%s insert %d %s %s' % (st_.name, model_index(st_.members, idx), m.name, m.type))
            forms.add('patch:insert')
            continue
        attrs = 'name="%s" type="%s"' % (name, tname)
        if m.kind == PLAIN:
            parts.append('<member %s/>' % attrs)
        elif m.kind == OPT:
            parts.append('<member %s optional="true"/>' % attrs)
            forms.add('optional')
        elif m.kind == FIXARR:
            if m.size % 2 == 0 and m.size > 2 and m.size_expr == str(m.size) and draw(st.booleans()):
                parts.append('<member %s><dimension size="%d" size2="2"/></member>' % (attrs, m.size // 2))
                forms.add('size2')
            elif draw(st.integers(0, 5)) == 0:
                # a fixed array that says so explicitly
                parts.append('<member %s><dimension size="%s" isVariableSize="false"/></member>' % (attrs, ir._xml(ir.isar_size(m))))
                forms.add('isVariableSize-false')
            elif m.size_expr.isidentifier() and draw(st.booleans()):
                # two-dimensional with a named extent: the parser hands "NAME*1" to the model-time evaluator
                parts.append('<member %s><dimension size="%s" size2="1"/></member>' % (attrs, m.size_expr))
                forms.add('size2-named')
            else:
                parts.append('<member %s><dimension size="%s"/></member>' % (attrs, ir._xml(ir.isar_size(m))))
                forms.add('size' if ir.isar_size(m) == m.size_expr else 'size-literal-for-expression')
        elif m.kind == EXTARR:
            parts.append('<member %s><dimension variableSizeFieldName="@%s"/></member>' % (attrs, m.sizer))
            forms.add('ext')
        elif m.kind == DYNARR:
            if deg == 6 and not as_message:
                # written as a *limited* array bound to its counter; the documented `dynamic` rule (re-)associates
                # it with the size field and drops the size
                parts.append('<member %s><dimension size="3" isVariableSize="true" variableSizeFieldName="num_of_%s"/>'
                             '</member>' % (attrs, m.name))
                patch.append('%s dynamic %s num_of_%s' % (st_.name, m.name, m.name))
                forms.add('patch:dynamic-on-limited')
            elif deg in (3, 4):
                parts.append('<member name="num_of_%s" type="u32"/>' % m.name)
                parts.append('<member %s><dimension size="1"/></member>' % attrs)
                patch.append('%s dynamic %s num_of_%s' % (st_.name, m.name, m.name))
                forms.add('patch:dynamic')
            else:
                sz = ' size="7"' if as_message else ''
                parts.append('<member %s><dimension%s isVariableSize="true" variableSizeFieldName="num_of_%s"/>'
                             '</member>' % (attrs, sz, m.name))
                forms.add('isVariableSize')
        elif m.kind == LIMARR:
            if deg in (3, 4):
                parts.append('<member name="num_of_%s" type="u32"/>' % m.name)
                parts.append('<member %s><dimension size="%s"/></member>' % (attrs, ir._xml(ir.isar_size(m))))
                patch.append('%s limited %s num_of_%s' % (st_.name, m.name, m.name))
                forms.add('patch:limited')
            elif m.size % 2 == 0 and m.size > 2 and m.size_expr == str(m.size) and draw(st.booleans()):
                parts.append('<member %s><dimension size="%d" size2="2" isVariableSize="true" '
                             'variableSizeFieldName="num_of_%s"/></member>' % (attrs, m.size // 2, m.name))
                forms.add('limited-size2')
            else:
                parts.append('<member %s><dimension size="%s" isVariableSize="true" '
                             'variableSizeFieldName="num_of_%s"/></member>' % (attrs, ir._xml(ir.isar_size(m)), m.name))
                forms.add('limited')
        elif m.kind == GREEDY:
            parts.append('<member %s><dimension size="1"/></member>' % attrs)
            patch.append('%s greedy %s' % (st_.name, m.name))
            forms.add('patch:greedy')
        # extra member removed by a patch rule
        if deg == 5:
            parts.append('<member name="extra_%d" type="u16"/>' % idx)
            patch.append('%s remove extra_%d' % (st_.name, idx))
            forms.add('patch:remove')
    patch.extend(pending_insert)
    tag = 'message' if as_message else 'struct'
    if as_message:
        forms.add('message')
    return '<%s name="%s">%s</%s>' % (tag, st_.name, ''.join(parts), tag), forms


def render_isar(draw, schema):
    patch = []
    forms = set()
    out = ['<defs>']
    for d in schema.decls:
        if isinstance(d, Struct):
            xml, f = render_isar_struct(draw, schema, d, patch)
            forms |= f
            out.append(xml)
        elif isinstance(d, Enum):
            members = []
            for n, v, e in d.members:
                if v >= (1 << 31) and draw(st.booleans()):
                    members.append('<enum-member name="%s" value="%d"/>' % (n, v - (1 << 32)))
                    forms.add('negative_enum')
                else:
                    members.append('<enum-member name="%s" value="%s"/>' % (n, ir._xml(e)))
            out.append('<enum name="%s">%s</enum>' % (d.name, ''.join(members)))
        elif isinstance(d, Union):
            arms = []
            for a in d.arms:
                if a.disc >= (1 << 31) and a.disc_expr == str(a.disc) and draw(st.booleans()):
                    arms.append('<member name="%s" type="%s" discriminatorValue="%d"/>' % (a.name, a.type, a.disc - (1 << 32)))
                    forms.add('negative_discriminator')
                else:
                    arms.append('<member name="%s" type="%s" discriminatorValue="%s"/>' % (a.name, a.type, ir._xml(a.disc_expr)))
            out.append('<union name="%s">%s</union>' % (d.name, ''.join(arms)))
        else:
            out.append(ir.render_isar_decl(d))
    out.append('</defs>')
    return '\n'.join(out) + '\n', '\n'.join(patch) + ('\n' if patch else ''), forms


@st.composite
def cases(draw, opts):
    schema = draw(gen.schemas(opts))
    xml, patch, forms = render_isar(draw, schema)
    rw = RefWire(schema)
    vg = gen.ValueGen(draw, schema, opts, rw)
    vals = []
    for c in schema.composites()[-3:]:
        vals.append((c.name, vg.value(c.name)))
    noise = draw(st.lists(st.sampled_from(
        ['Absent1 type x u8', 'Nope rename Other', 'Ghost greedy g', 'Q_absent remove f', 'ZZ struct',
         'Absent2 insert 0 a u8', 'Absent3 dynamic a b', 'Absent4 limited a b', 'Absent5 static a 3']),
        max_size=3))
    return schema, xml, patch, forms, vals, noise


def compile_isar(xml, patch, outdir_tag='a'):
    work = pyh.fresh_dir('c17' + outdir_tag)
    with open(os.path.join(work, 'm.xml'), 'w') as f:
        f.write(xml)
    args = ['--isar', os.path.join(work, 'm.xml'), '--python_out', work]
    if patch is not None:
        with open(os.path.join(work, 'patch.txt'), 'w') as f:
            f.write(patch)
        args += ['--patch', os.path.join(work, 'patch.txt')]
    try:
        nodes = pyh.run_prophyc(args)['m']
        with open(os.path.join(work, 'm.py')) as f:
            py = f.read()
        return nodes, py
    finally:
        shutil.rmtree(work, ignore_errors=True)


def check_case(schema, xml, patch, vals, noise=()):
    det = {'prophy': schema.to_prophy(), 'xml': xml, 'patch': patch}
    rw = RefWire(schema)
    try:
        ref = pyh.PyCodec(schema)
    except Exception as ex:
        return None      # the prophy side refusing a generated schema is C12's business
    try:
        nodes, py = compile_isar(xml, patch if patch else None)
    except pyh.CompileFailed as ex:
        return ("prophyc --isar refused the equivalent description: %s" % str(ex)[:300], det)
    except Exception as ex:
        return ("prophyc --isar raised %s: %s" % (type(ex).__name__, str(ex)[:300]),
                dict(det, exception=common.exc_info(ex)))
    by_name = {n.name: n for n in nodes}
    ref_by_name = {n.name: n for n in ref.nodes}
    for d in schema.composites():
        a, b = by_name.get(d.name), ref_by_name.get(d.name)
        if a is None:
            return ("isar model has no node %s" % d.name, det)
        size, align, stiff = rw.layout(d.name)
        ta = (a.byte_size if stiff == ir.FIXED else None, a.alignment, a.kind)
        tb = (b.byte_size if stiff == ir.FIXED else None, b.alignment, b.kind)
        if ta != tb or ta != (size, align, stiff):
            return ("%s: (size, alignment, stiffness) is %r from isar, %r from the prophy text, %r by the wire rules" % (
                d.name, ta, tb, (size, align, stiff)), det)
        # member for member the two models carry the same wire facts
        ma, mb = getattr(a, 'members', []), getattr(b, 'members', [])
        fa = [(m.name, getattr(m, 'numeric_size', None), m.byte_size, m.alignment, getattr(m, 'padding', None)) for m in ma]
        fb = [(m.name, getattr(m, 'numeric_size', None), m.byte_size, m.alignment, getattr(m, 'padding', None)) for m in mb]
        if fa != fb:
            diff = [(x, y) for x, y in zip(fa, fb) if x != y][:2] or [(len(fa), len(fb))]
            return ("%s: members (name, numeric size, byte size, alignment, padding) differ between the isar model and "
                    "the prophy-text model: %r" % (d.name, diff), det)
    try:
        ns = pyh.load_module_text(py)
    except Exception as ex:
        return ("Python module generated from isar does not import: %s: %s" % (type(ex).__name__, str(ex)[:200]), det)
    isar_codec = pyh.PyCodec.__new__(pyh.PyCodec)
    isar_codec.schema, isar_codec.ns = schema, ns
    for tname, val in vals:
        for e in '<>':
            try:
                x = isar_codec.build(tname, val).encode(e)
                y = ref.build(tname, val).encode(e)
            except Exception as ex:
                return ("encoding %s through the isar-generated codec raised %s: %s" % (tname, type(ex).__name__, ex),
                        det)
            if x != y:
                return ("codecs generated from isar and from the prophy text encode %s differently" % tname,
                        dict(det, isar=x.hex(), prophy=y.hex(), value=ir.value_to_json(val)))
    # patch rules that name absent messages are ignored
    if noise:
        try:
            nodes2, py2 = compile_isar(xml, (patch or '') + '\n'.join(noise) + '\n', 'n')
        except Exception as ex:
            return ("patch rules naming absent messages made the compilation fail: %s: %s" % (
                type(ex).__name__, str(ex)[:200]), dict(det, noise=list(noise)))
        if py2 != py:
            return ("patch rules naming absent messages changed the output", dict(det, noise=list(noise)))
    return None


BAD_RULES = [
    ('{S} type no_such_member u8', 'unknown member'),
    ('{S} remove no_such_member', 'unknown member'),
    ('{S} type {m}', 'wrong arity'),
    ('{S} remove', 'wrong arity'),
    ('{S} frobnicate {m}', 'unknown action'),
    ('{S} limited {m} no_such_sizer', 'limited without sizer'),
    ('{S} struct', 'struct on a struct'),
    ('{S} insert x {m} u8', 'index not a number'),
    ('{S} rename', 'wrong arity'),
    ('{S} dynamic {m}', 'wrong arity'),
    ('{S} greedy', 'wrong arity'),
    ('{S} static {m}', 'wrong arity'),
    ('{S} dynamic {m} no_such_sizer', 'dynamic without its size field'),
    ('{S} limited {scalar} {m}', 'limited on a field that is no fixed array'),
    ('{S} greedy {m}', 'greedy on a field that is not the last one'),
]


def check_bad_rules(schema, xml, patch, which):
    sts = [d for d in schema.structs() if ('%s struct' % d.name) not in (patch or '')]
    if not sts:
        return None
    s = sts[-1]
    rule, why = BAD_RULES[which % len(BAD_RULES)]
    # a plain scalar member behind the first member (if any), under the name it has once the restoring patch has run
    scalars = [m.name for m in s.members[1:] if m.kind == PLAIN and not m.is_bytes and m.type in NUMERIC and
               m.name not in s.sizers()]
    if '{scalar}' in rule and not scalars:
        rule, why = BAD_RULES[0]
    if why.startswith('greedy on') and (len(s.members) < 2 or s.members[0].kind in (DYNARR, LIMARR)):
        rule, why = BAD_RULES[0]        # (needs a first member that is not the last; counters keep their arrays' names apart)
    line = rule.format(S=s.name, m=s.members[0].name, scalar=scalars[0] if scalars else '')
    det = {'xml': xml, 'patch': (patch or '') + line + '\n', 'why': why}
    try:
        compile_isar(xml, (patch or '') + line + '\n', 'b')
    except Exception:
        return None          # any failure of the compilation is what the documentation promises
    return ("patch rule that cannot be applied (%s: %r) did not fail the compilation" % (why, line), det)


def body(case, stats):
    schema, xml, patch, forms, vals, noise = case
    bad = check_case(schema, xml, patch, vals, noise)
    nontrivial = len([f for f in forms if not f.startswith('patch:')]) >= 2 or any(f.startswith('patch:') for f in forms)
    stats.case((xml, patch), nontrivial, forms, sample=lambda: {'xml': xml, 'patch': patch,
                                                                  'prophy': schema.to_prophy()})
    if not bad:
        which = len(xml) + len(patch)
        bad = check_bad_rules(schema, xml, patch, which)
        stats.notes['bad_rule_checks'] += 1
    if bad:
        raise Violation(bad[0], {'details': bad[1], 'schema': schema.to_json()})


def gen_opts():
    return gen.GenOpts(big_sizes=False, min_decls=2, max_decls=8, allow_unset=False, aligned_greedy=False,
                       const_ref_bias=3, const_exprs=True, rich_size_exprs=True, avoid=common.avoid_set(ID),
                       enum_aliases=False)


def worker(widx, seed, tier, stats):
    n = {'quick': 120, 'thorough': 3000}[tier]
    runner.run_given(cases(gen_opts()), body, seed, n, stats)


def include_scenarios(stats):
    """Replay tier (a defect repaired in /repo): a rule names a message that lives in an included file which is called
    like the message.  For the including file the message is absent - the rule is ignored there - and the include
    itself is no message."""
    files = {'Header.prophy': 'struct Header\n{\n    u8 a;\n};\n',
             'main.prophy': '#include "Header.prophy"\nstruct M\n{\n    Header h;\n    u8 b;\n};\n'}
    for rules, want in (('Header insert 0 zq u16\nHeader rename a a2\n', ['zq', 'a2']),
                        ('Header type a u64\n', ['a'])):
        work = pyh.fresh_dir('c17i')
        try:
            for fn, text in files.items():
                with open(os.path.join(work, fn), 'w') as f:
                    f.write(text)
            with open(os.path.join(work, 'p.txt'), 'w') as f:
                f.write(rules)
            stats.notes['include_scenarios'] += 1
            det = {'files': files, 'patch': rules}
            try:
                pyh.run_prophyc(['--patch', os.path.join(work, 'p.txt'), '--python_out', work,
                                 os.path.join(work, 'main.prophy'), os.path.join(work, 'Header.prophy')])
            except Exception as ex:
                stats.violations.append({'what': "a patch rule for a message of an included file (named like the file) "
                                         "made the compilation fail: %s: %s" % (type(ex).__name__, str(ex)[:200]),
                                         'case': {'details': det}})
                continue
            main_py = open(os.path.join(work, 'main.py')).read()
            if 'from .Header import' not in main_py:
                stats.violations.append({'what': "a patch rule renamed / changed the include of the including file",
                                         'case': {'details': dict(det, main_py=main_py[:600])}})
        finally:
            shutil.rmtree(work, ignore_errors=True)


def run(tier, seed):
    t0 = time.time()
    stats = runner.run_workers(__name__, 'worker', seed, tier)
    include_scenarios(stats)
    return runner.finish(ID, tier, seed, LEVEL, RULE, stats, t0, ASSUME)


def replay(payload):
    print(ir.dumps(payload['case']['details'])[:4000])
    print("re-running with the recorded seed and tier (the run is a pure function of them):")
    return run(payload.get('tier', 'quick'), payload.get('seed', 1))
