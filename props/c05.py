"""C05 - C++ full codec: get_byte_size equals bytes written; encode stays in bounds.

values    : decoded from canonical bytes; 'over' variants push k extra elements into every limited vector
            (at every nesting level); default-constructed objects and over-filled default objects.
oracle    : get_byte_size() == size returned by encode<E>(void*) for E in {little,big,native} == size of every
            encode<E>() vector (== encoded_byte_size for fixed types); the pointer encode runs into an exact-size
            heap block under AddressSanitizer (red zones on both sides), as do the vector encoders.
"""
import time

from vlib import gen, cppcamp, runner, common
from vlib.ir import FIXED

ID = 'C05'
LEVEL = 'exploration'
RULE = ("cases = (generated schema, composite type, C++ object obtained by decoding a generated value's canonical "
        "bytes | default construction, optionally with every limited vector grown to limit+k); non-trivial = the "
        "type has a dynamic part, a limited array, or an optional / union slot; distinct = distinct hash of "
        "(schema text, type, value, op, k)")
ASSUME = ["g++ 12 x86-64 with ASan+UBSan: an out-of-bounds write is reported by the sanitizer",
          "objects are reached through decode() or default construction plus vector resizing (public members)",
          "output buffers are 8-aligned heap blocks; arrays bound to a sizer hold no more elements than the sizer type "
          "can count (the C++ side of finding P6b)"]


class Campaign(cppcamp.FullCampaign):
    prop = ID
    nontrivial = frozenset({'struct_dynamic', 'struct_unlimited', 'limited', 'optional', 'union'})

    def vectors(self, rw, py, tname, val):
        canon = rw.encode(tname, val, '<')[0]
        big = rw.encode(tname, val, '>')[0]
        return [('decoded', 'dec', '<', canon, 0), ('decoded-big', 'dec', '>', big, 0),
                ('over+1', 'over', '<', canon, 1), ('over+3', 'over', '<', canon, 3),
                ('default', 'def', '<', b'', 0), ('default-over+2', 'def', '<', b'', 2)]

    def judge(self, rw, tname, val, vec, res):
        label, op, e, data, k = vec
        if 'crash' in res:
            return ("C++ full codec died while sizing/encoding a value: %s" % res['crash'],
                    {'stderr': res.get('stderr', '')[-1500:]})
        if not res.get('ok'):
            return None     # refusal of canonical bytes is C03's business
        sizes = {'get_byte_size': res['gbs'], 'encode<little>(void*)': res['ptrL'], 'encode<big>(void*)': res['ptrB'],
                 'encode(void*)': res['ptrN'], 'encode<little>()': len(res['encL']), 'encode<big>()': len(res['encB']),
                 'encode()': len(res['encN'])}
        if len(set(sizes.values())) != 1:
            return ("get_byte_size / bytes written / vector length disagree: %s" % sizes, {'sizes': sizes})
        size, _, stiff = rw.layout(tname)
        if stiff == FIXED and (res['ebs'] != res['gbs'] or res['ebs'] != size):
            return ("fixed type: encoded_byte_size %d, get_byte_size %d, wire size %d" % (res['ebs'], res['gbs'], size),
                    {})
        if stiff != FIXED and res['ebs'] != -1:
            return ("non-fixed type publishes encoded_byte_size %d" % res['ebs'], {})
        if res['ptrLhex'] != res['encL']:
            return ("encode<little>(void*) into a zeroed buffer differs from encode<little>()",
                    {'ptr': res['ptrLhex'].hex(), 'vector': res['encL'].hex()})
        return None


CAMPAIGN = Campaign()
check_case = CAMPAIGN.check_case


def worker(widx, seed, tier, stats):
    CAMPAIGN.worker(widx, seed, tier, stats, {'quick': 2, 'thorough': 40}[tier])


def run(tier, seed):
    t0 = time.time()
    stats = runner.run_workers(__name__, 'worker', seed, tier)
    common.run_regress(ID, stats, check_case)
    return runner.finish(ID, tier, seed, LEVEL, RULE, stats, t0, ASSUME)


def replay(payload):
    return CAMPAIGN.replay(payload)
