"""C01 - Python encode emits exactly the documented wire format.

generator : SchemaGen (all member kinds) x ValueGen x {'<','>'}
oracle    : RefWire (docs/encoding.rst) byte-for-byte
"""
import time

from vlib import gen, ir, pyh, runner, common
from vlib.refwire import RefWire
from vlib.runner import Violation

ID = 'C01'
LEVEL = 'exploration'
RULE = ("cases = (generated schema, composite type, generated value, byte order); the Python class comes from "
        "`prophyc --python_out` of the working tree; non-trivial = the canonical encoding contains a padding byte, "
        "or an optional / union / limited-array slot, or a dynamic field followed by another field; "
        "distinct = distinct hash of (schema text, type, value, byte order)")
ASSUME = ["RefWire is a correct reading of docs/encoding.rst (it reproduces all 33 worked examples)",
          "NaN floats are not generated", "array lengths stay within the range of their sizer type"]

NONTRIVIAL = {'has_padding', 'optional', 'union', 'limited', 'field_after_dynamic'}


def check_case(schema, tname, val, codec=None, rw=None):
    """-> None or (what, details) ; also used by --replay."""
    rw = rw or RefWire(schema)
    codec = codec or pyh.PyCodec(schema)
    for e in '<>':
        expected, _ = rw.encode(tname, val, e)
        try:
            msg = codec.build(tname, val)
            got = msg.encode(e)
        except Exception as ex:
            return ("encode of a valid %s raised %s: %s" % (tname, type(ex).__name__, ex),
                    {'endianness': e, 'expected': expected.hex(), 'exception': common.exc_info(ex)})
        if got != expected:
            return ("Python encode(%r) of %s differs from the documented wire format" % (e, tname),
                    {'endianness': e, 'expected': expected.hex(), 'observed': bytes(got).hex()})
    # "every value assignable": enum fields assigned by name / enumerator object (own or foreign enum) instead of number
    ea = pyh.EnumArgs(codec.ns, len(expected) % 4)
    try:
        got = codec.build(tname, val, ea).encode('<')
    except Exception as ex:
        return ("encode of a valid %s whose enum fields were assigned by %s raised %s: %s" % (
            tname, '/'.join(sorted(ea.used)), type(ex).__name__, ex), {'exception': common.exc_info(ex)})
    if ea.used and got != rw.encode(tname, val, '<')[0]:
        return ("Python encode('<') of %s differs from the wire format when enum fields are assigned by %s" % (
            tname, '/'.join(sorted(ea.used))), {'observed': bytes(got).hex(), 'expected': rw.encode(tname, val, '<')[0].hex()})
    return None


def body(case, stats):
    schema, cases = case
    rw = RefWire(schema)
    text = schema.to_prophy()
    try:
        codec = pyh.PyCodec(schema, text)
    except Exception as ex:
        raise Violation("generated legal schema not usable from Python: %s: %s" % (type(ex).__name__, ex),
                        common.case_payload(schema, None, None, {'exception': common.exc_info(ex)}))
    for tname, val in cases:
        sf = gen.schema_features(rw, tname)
        vf = gen.value_features(rw, tname, val)
        feats = sf | vf
        bad = check_case(schema, tname, val, codec, rw)
        stats.case((text, tname, repr(val)), bool(feats & NONTRIVIAL), feats,
                   sample=lambda: common.sample(schema, tname, val, rw))
        if bad:
            fid = common.classify_known(ID, schema, rw, tname, val, bad)
            if fid:
                stats.known_finding(fid, lambda: common.sample(schema, tname, val, rw))
                continue
            raise Violation(bad[0], common.case_payload(schema, tname, val, bad[1]))


def worker(widx, seed, tier, stats):
    n = {'quick': 250, 'thorough': 5000}[tier]
    opts = gen.GenOpts(avoid=common.avoid_set(ID), tail_focus=6, alias_focus=8, block_focus=8, rich_size_exprs=True, oddunion_focus=8, smallopt_focus=8, long_fixed_bias=10)
    runner.run_given(gen.schema_with_values(opts), body, seed, n, stats, shrink=True)
    if opts.avoid and widx < 2:
        # keep every open finding backed by a live reproduction: a small campaign that does not steer away
        runner.run_given(gen.schema_with_values(gen.GenOpts()), body, seed + 1, max(n // 4, 50), stats)


def run(tier, seed):
    t0 = time.time()
    stats = runner.run_workers(__name__, 'worker', seed, tier)
    common.run_regress(ID, stats, check_case)
    return runner.finish(ID, tier, seed, LEVEL, RULE, stats, t0, ASSUME)


def replay(payload):
    schema, tname, val = common.case_from_payload(payload)
    bad = check_case(schema, tname, val)
    if bad:
        print("VIOLATION property=%s replay=(given)" % ID)
        print("  " + bad[0])
        print("  " + ir.dumps(bad[1]))
        return 1
    print("replay: property holds on this case")
    return 0
