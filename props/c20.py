"""C20 - prophyc output is a deterministic function of its inputs.

generator : single- and multi-file schemas (prophy language; isar XML for single files), then pairs of runs that
            differ in exactly one nuisance parameter: PYTHONHASHSEED (0 / 1 / generated), working directory and
            relative vs absolute paths, command-line order of independent inputs, a file compiled alone vs together
            with the others, first vs second main() call inside one process (also after compiling another schema).
oracle    : every generated file (.py, .pp.hpp, .pp.cpp, .ppf.hpp, .ppf.cpp, .prophy) is byte-identical across the
            pair.
"""
import hashlib
import os
import shutil
import subprocess
import sys
import time

from hypothesis import strategies as st

from vlib import gen, ir, pyh, multifile, runner, common
from vlib.runner import Violation

ID = 'C20'
LEVEL = 'exploration'
RULE = ("cases = (generated schema / file layout, nuisance variation); each case = one pair of runs compared file by "
        "file; non-trivial = the schema has >= 2 includes, or >= 3 input files, or >= 6 definitions; distinct = "
        "distinct hash of (input texts, variation)")
ASSUME = ["subprocess runs use `python -m prophyc` of the working tree with PYTHONPATH set to it",
          "outputs requested: --python_out --cpp_out --cpp_full_out --prophy_out"]
OUTS = ['--python_out', '--cpp_out', '--cpp_full_out', '--prophy_out']


def snapshot_dir(d):
    out = {}
    for fn in sorted(os.listdir(d)):
        p = os.path.join(d, fn)
        if os.path.isfile(p):
            with open(p, 'rb') as f:
                out[fn] = f.read()
    return out


def run_sub(args, cwd, hashseed):
    env = dict(os.environ)
    env['PYTHONPATH'] = os.path.abspath(pyh.REPO)
    env['PYTHONHASHSEED'] = str(hashseed)
    p = subprocess.run([sys.executable, '-m', 'prophyc'] + args, cwd=cwd, env=env, stdout=subprocess.PIPE,
                       stderr=subprocess.PIPE, timeout=900)
    return p.returncode, p.stderr.decode(errors='replace')


def out_args(outdir):
    a = []
    for o in OUTS:
        a += [o, outdir]
    return a


def diff_outputs(a, b, only=None):
    keys = set(a) | set(b)
    if only is not None:
        exts = ('.py', '.pp.hpp', '.pp.cpp', '.ppf.hpp', '.ppf.cpp', '.prophy')
        keys = set(k for k in keys if any(k == st_ + x for st_ in only for x in exts))
    for k in sorted(keys):
        if a.get(k) != b.get(k):
            return k
    return None


def check_layout(lay, variation, param, isar=False):
    """-> None | (what, details) ; also 'skip' string when the baseline run is refused."""
    root = pyh.fresh_dir('c20')
    try:
        if isar:
            paths = [os.path.join(root, 'f0.xml')]
            with open(paths[0], 'w') as f:
                f.write(ir.to_isar(lay.schema.decls))
            pre = ['--isar']
            inc = []
        else:
            paths = lay.write(root)
            pre = []
            inc = []
            for d in lay.include_dirs(root):
                inc += ['-I', d]
            if getattr(lay, 'patch_text', None):
                # the same patch file in both runs of the pair (its rules may name definitions of included files)
                with open(os.path.join(root, 'patch.txt'), 'w') as f:
                    f.write(lay.patch_text)
                pre = ['--patch', os.path.join(root, 'patch.txt')]
        base_out = os.path.join(root, 'out_base')
        os.makedirs(base_out)
        rc, err = run_sub(pre + inc + out_args(base_out) + paths, root, 0)
        if rc != 0:
            return 'skip'
        base = snapshot_dir(base_out)
        det = dict(lay.describe(), variation=variation, param=param, isar=isar, patch=getattr(lay, 'patch_text', None))
        var_out = os.path.join(root, 'out_var')
        os.makedirs(var_out)
        only = None
        if variation == 'hashseed':
            rc, err = run_sub(pre + inc + out_args(var_out) + paths, root, param)
        elif variation == 'cwd':
            other = os.path.join(root, 'elsewhere', 'deeper')
            os.makedirs(other)
            rel = lambda p: os.path.relpath(p, other)
            rinc = [rel(x) if x != '-I' else x for x in inc]
            routs = []
            for o in OUTS:
                routs += [o, rel(var_out)]
            rc, err = run_sub(pre + rinc + routs + [rel(p) for p in paths], other, 0)
        elif variation == 'order':
            perm = [paths[i] for i in param]
            rc, err = run_sub(pre + inc + out_args(var_out) + perm, root, 0)
        elif variation == 'alone':
            i = param
            rc, err = run_sub(pre + inc + out_args(var_out) + [paths[i]], root, 0)
            only = {lay.stem(i) if not isar else 'f0'}
        elif variation in ('second_call', 'after_other'):
            # in-process: main() twice; or main(other schema) first
            pyh.setup_repo()
            if variation == 'after_other':
                oroot = os.path.join(root, 'other')
                os.makedirs(oroot)
                op = os.path.join(oroot, 'zz.prophy')
                with open(op, 'w') as f:
                    f.write('const ZZ = 5;\nenum ZE { ZE_a = 1 };\nstruct S1 { u8 a; ZE b<ZZ>; };\n'
                            'struct K1 { S1 x<>; };\n')
                oo = os.path.join(oroot, 'o')
                os.makedirs(oo)
                pyh.run_prophyc(out_args(oo) + [op])
            else:
                first = os.path.join(root, 'out_first')
                os.makedirs(first)
                pyh.run_prophyc(pre + inc + out_args(first) + paths)
            try:
                pyh.run_prophyc(pre + inc + out_args(var_out) + paths)
                rc, err = 0, ''
            except pyh.CompileFailed as ex:
                rc, err = 1, str(ex)
        else:
            raise ValueError(variation)
        if rc != 0:
            return ("a run that differs only in %s failed while the baseline succeeded: %s" % (variation, err[-300:]),
                    det)
        var = snapshot_dir(var_out)
        bad = diff_outputs(base, var, only)
        if bad:
            return ("generated file %s differs between two runs that differ only in %s (%r)" % (bad, variation, param),
                    dict(det, file=bad, baseline=base.get(bad, b'').decode(errors='replace')[:3000],
                         variant=var.get(bad, b'').decode(errors='replace')[:3000]))
        return None
    finally:
        shutil.rmtree(root, ignore_errors=True)


def check_twins(lay_a, lay_b, order, isar=False):
    """Two independent schemas in two directories, each with its own 'types.prophy' (same spelling, different
    content): compiling both main files in one run must give what compiling each alone gives.
    isar: two independent single XML files whose definitions carry the same names with different contents."""
    root = pyh.fresh_dir('c20t')
    try:
        mains = []
        pre = ['--isar'] if isar else []
        for tag, lay in (('a', lay_a), ('b', lay_b)):
            d = os.path.join(root, tag)
            os.makedirs(d)
            if isar:
                mains.append(os.path.join(d, 'm%s.xml' % tag))
                with open(mains[-1], 'w') as f:
                    f.write(ir.to_isar(lay.schema.decls))
                continue
            lay.stems = ['types', 'm' + tag]
            lay.exts = None
            lay.arrangement = 'flat'
            for i in range(lay.nfiles):
                with open(os.path.join(d, lay.stem(i) + '.prophy'), 'w') as f:
                    f.write(lay.text(i))
            mains.append(os.path.join(d, 'm%s.prophy' % tag))
        outs = {}
        for label, files in (('a_alone', [mains[0]]), ('b_alone', [mains[1]]),
                             ('together', [mains[i] for i in order])):
            o = os.path.join(root, 'out_' + label)
            os.makedirs(o)
            rc, err = run_sub(pre + out_args(o) + files, root, 0)
            if rc != 0:
                if label != 'together':
                    return 'skip'
                return ("compiling two independent inputs together failed although each compiles alone: %s" % err[-300:],
                        {'a': lay_a.describe(), 'b': lay_b.describe(), 'order': list(order)})
            outs[label] = snapshot_dir(o)
        for label, stem in (('a_alone', 'ma'), ('b_alone', 'mb')):
            bad = diff_outputs(outs[label], outs['together'], {stem})
            if bad:
                return ("generated file %s differs when its input is compiled together with an independent input" % bad,
                        {'a': lay_a.describe(), 'b': lay_b.describe(), 'order': list(order), 'file': bad,
                         'alone': outs[label].get(bad, b'').decode(errors='replace')[:2000],
                         'together': outs['together'].get(bad, b'').decode(errors='replace')[:2000]})
        return None
    finally:
        shutil.rmtree(root, ignore_errors=True)


@st.composite
def twin_cases(draw, opts):
    lays = []
    for _ in range(2):
        for _try in range(4):
            lay = draw(multifile.layouts(opts, min_files=2, max_files=2, transitive_focus=0))
            if lay.nfiles == 2 and lay.includes[1] == [0]:
                break
        lays.append(lay)
    order = draw(st.permutations([0, 1]))
    return lays[0], lays[1], list(order)


@st.composite
def isar_twin_cases(draw):
    o = gen.GenOpts(allow_greedy=False, big_sizes=False, min_decls=3, max_decls=8, const_exprs=True, const_ref_bias=2,
                    cpp_full_ok=True, enum_aliases=False)
    lays = [draw(multifile.layouts(o, min_files=1, max_files=1, transitive_focus=0)) for _ in range(2)]
    return lays[0], lays[1], list(draw(st.permutations([0, 1])))


def isar_twin_body(case, stats):
    lay_a, lay_b, order = case
    res = check_twins(lay_a, lay_b, order, isar=True)
    if res == 'skip':
        stats.notes['baseline_refused'] += 1
        return
    stats.case((ir.to_isar(lay_a.schema.decls), ir.to_isar(lay_b.schema.decls), tuple(order)), True,
               ('twin_inputs', 'isar', 'files=2'),
               sample=lambda: {'variation': 'twin_inputs', 'isar': True, 'order': order,
                               'a': ir.to_isar(lay_a.schema.decls), 'b': ir.to_isar(lay_b.schema.decls)})
    if res:
        raise Violation(res[0], {'details': res[1]})


def twin_body(case, stats):
    lay_a, lay_b, order = case
    if not (lay_a.nfiles == 2 and lay_b.nfiles == 2 and lay_a.includes[1] == [0] and lay_b.includes[1] == [0]):
        stats.notes['twin_unusable'] += 1
        return
    res = check_twins(lay_a, lay_b, order)
    if res == 'skip':
        stats.notes['baseline_refused'] += 1
        return
    stats.case((lay_a.text(0), lay_a.text(1), lay_b.text(0), lay_b.text(1), tuple(order)), True,
               ('twin_includes', 'prophy', 'files=4'),
               sample=lambda: {'variation': 'twin_includes', 'order': order, 'a': lay_a.describe(), 'b': lay_b.describe()})
    if res:
        raise Violation(res[0], {'details': res[1]})


@st.composite
def cases(draw, opts):
    isar = draw(st.integers(0, 4)) == 0
    if isar:
        o = gen.GenOpts(allow_greedy=False, big_sizes=False, min_decls=3, max_decls=10, const_exprs=True,
                        cpp_full_ok=True, enum_aliases=False)
        lay = draw(multifile.layouts(o, min_files=1, max_files=1))
        variation = draw(st.sampled_from(['hashseed', 'cwd', 'second_call', 'after_other']))
    else:
        lay = draw(multifile.layouts(opts, min_files=1, max_files=5))
        if draw(st.integers(0, 3)) == 0:
            # file names that are no identifiers (fine for the C++ back-ends; the outputs are compared, not imported)
            lay.stems = [('my-%s' if i % 2 else 'v1.%s') % lay.stem(i) for i in range(lay.nfiles)]
            lay.exts = None     # ('v1.f0' without extension would be the file 'v1' with extension '.f0')
        variation = draw(st.sampled_from(['hashseed', 'hashseed', 'cwd', 'order', 'alone', 'second_call',
                                          'after_other']))
        if lay.nfiles >= 4 and draw(st.booleans()):
            variation = 'hashseed'      # include graphs with diamonds: symbol sets are where hash order could leak
        if draw(st.integers(0, 3)) == 0:
            # a patch file (-p) with rules that are not idempotent, naming structs of any of the files
            from vlib.ir import Struct as _S, PLAIN as _P
            rules = []
            for d in draw(st.lists(st.sampled_from(lay.schema.structs()), min_size=1, max_size=2, unique_by=lambda x: x.name)) \
                    if lay.schema.structs() else []:
                plain = [m for m in d.members if m.kind == _P and m.name not in d.sizers()]
                if plain and draw(st.booleans()):
                    rules.append('%s rename %s %s_pq' % (d.name, plain[0].name, plain[0].name))
                else:
                    rules.append('%s insert 0 zq_%s u%d' % (d.name, d.name.lower(), draw(st.sampled_from([8, 16, 32, 64]))))
            if rules:
                lay.patch_text = '\n'.join(rules) + '\n'
                if variation in ('order', 'hashseed') and draw(st.booleans()):
                    variation = 'alone'
    if variation == 'hashseed':
        param = draw(st.one_of(st.just(1), st.integers(2, 2 ** 32 - 1)))
    elif variation == 'order':
        param = list(draw(st.permutations(list(range(lay.nfiles)))))
    elif variation == 'alone':
        param = draw(st.integers(0, lay.nfiles - 1))
    else:
        param = None
    return lay, variation, param, isar


def body(case, stats):
    lay, variation, param, isar = case
    res = check_layout(lay, variation, param, isar)
    if res == 'skip':
        stats.notes['baseline_refused'] += 1
        return
    texts = tuple(lay.text(i) for i in range(lay.nfiles))
    nontrivial = (sum(len(x) for x in lay.includes) >= 2 or lay.nfiles >= 3 or len(lay.schema.decls) >= 6)
    stats.case((texts, variation, repr(param), isar, getattr(lay, 'patch_text', None)), nontrivial,
               (variation, 'isar' if isar else 'prophy', 'files=%d' % lay.nfiles) + (('patch',) if getattr(lay, 'patch_text', None) else ()),
               sample=lambda: {'variation': variation, 'param': param, 'isar': isar, 'layout': lay.describe()})
    if res:
        raise Violation(res[0], {'details': res[1]})


def gen_opts():
    return gen.GenOpts(min_decls=3, max_decls=10, const_exprs=True, const_ref_bias=3, big_sizes=False,
                       cpp_full_ok=True)


def worker(widx, seed, tier, stats):
    n = {'quick': 50, 'thorough': 700}[tier]
    runner.run_given(cases(gen_opts()), body, seed, n, stats, shrink=(tier == 'thorough'))
    if not stats.violations:
        runner.run_given(twin_cases(gen_opts()), twin_body, seed + 3, max(n // 4, 6), stats, shrink=(tier == 'thorough'))
    if not stats.violations:
        runner.run_given(isar_twin_cases(), isar_twin_body, seed + 5, max(n // 6, 5), stats, shrink=(tier == 'thorough'))


def run(tier, seed):
    t0 = time.time()
    stats = runner.run_workers(__name__, 'worker', seed, tier)
    return runner.finish(ID, tier, seed, LEVEL, RULE, stats, t0, ASSUME)


def replay(payload):
    print(ir.dumps(payload['case']['details'])[:4000])
    print("re-running with the recorded seed and tier (the run is a pure function of them):")
    return run(payload.get('tier', 'quick'), payload.get('seed', 1))
