"""C04 - prophyc's computed layout equals the wire rules and both runtimes' statics.

Python/model part: for every struct/union/typedef of a generated schema compare
  prophyc model node (byte_size, alignment, kind)  vs  RefWire  vs  generated Python class statics,
  and len(encode()) of generated values of fixed types vs that size.
C++ part (cpp_layout section): encoded_byte_size of the full codec, the lengths its encoders produce for a default-
constructed object of every fixed type, and sizeof / member offsets of the raw struct.
"""
import time

from vlib import gen, ir, pyh, runner, common
from vlib.ir import Struct, Union, Typedef, FIXED, DYNAMIC, UNLIMITED, KIND_NAMES
from vlib.refwire import RefWire
from vlib.runner import Violation

ID = 'C04'
LEVEL = 'exploration'
RULE = ("cases = every struct / union / typedef of a generated schema (types appear in every dependency order the "
        "prophy language allows); model node vs docs-derived RefWire vs generated Python class (_SIZE, _ALIGNMENT, "
        "_DYNAMIC, _UNLIMITED) vs len(encode()) for fixed types; C++ part: encoded_byte_size and raw sizeof from "
        "compiled drivers; non-trivial = composite with >= 2 members and an alignment change, optional, array or "
        "nested composite; distinct = distinct hash of (schema text, type)")
ASSUME = ["RefWire is a correct reading of docs/encoding.rst", "size is compared for fixed types only; alignment and "
          "stiffness for all"]
NONTRIVIAL = {'optional', 'nested_composite', 'fixed_array', 'dynamic_array', 'limited', 'ext_array', 'greedy',
              'has_alignment_change'}


def py_stiffness(cls):
    if cls._UNLIMITED:
        return UNLIMITED
    if cls._DYNAMIC:
        return DYNAMIC
    return FIXED


def check_type(schema, rw, codec, d):
    """d: Struct/Union/Typedef of the IR -> None or (what, details)"""
    node = next((n for n in codec.nodes if n.name == d.name), None)
    if node is None:
        return ("prophyc's model has no node for %s" % d.name, {})
    if isinstance(d, Typedef):
        base = schema.resolve(d.name)
        want = rw.layout(d.name)[2] if isinstance(base, (Struct, Union)) else FIXED
        if node.kind < want:
            return ("typedef %s classified %s by prophyc, wire rules say %s" % (
                d.name, KIND_NAMES.get(node.kind), KIND_NAMES[want]), {})
        if node.kind != want:
            return ("typedef %s classified %s by prophyc, wire rules say %s" % (
                d.name, KIND_NAMES.get(node.kind), KIND_NAMES[want]), {})
        return None
    size, align, stiff = rw.layout(d.name)
    det = {'refwire': [size, align, KIND_NAMES[stiff]],
           'model': [node.byte_size, node.alignment, KIND_NAMES.get(node.kind, node.kind)]}
    if node.kind != stiff:
        return ("%s: prophyc classifies it %s, the wire rules say %s" % (d.name, det['model'][2], det['refwire'][2]),
                det)
    if node.alignment != align:
        return ("%s: prophyc alignment %r, wire rules %r" % (d.name, node.alignment, align), det)
    if stiff == FIXED and node.byte_size != size:
        return ("%s: prophyc byte_size %r, wire rules %r" % (d.name, node.byte_size, size), det)
    cls = codec.cls(d.name)
    det['python'] = [cls._SIZE, cls._ALIGNMENT, KIND_NAMES[py_stiffness(cls)]]
    if py_stiffness(cls) != stiff:
        return ("%s: Python runtime classifies it %s, the wire rules say %s" % (d.name, det['python'][2],
                                                                            det['refwire'][2]), det)
    if cls._ALIGNMENT != align:
        return ("%s: Python _ALIGNMENT %r, wire rules %r" % (d.name, cls._ALIGNMENT, align), det)
    if stiff == FIXED and cls._SIZE != size:
        return ("%s: Python _SIZE %r, wire rules %r" % (d.name, cls._SIZE, size), det)
    return None


def check_len(schema, rw, codec, tname, val):
    size, _, stiff = rw.layout(tname)
    if stiff != FIXED:
        return None
    for e in '<>':
        try:
            n = len(codec.build(tname, val).encode(e))
        except Exception as ex:
            return ("encode raised %s: %s" % (type(ex).__name__, ex), {'exception': common.exc_info(ex)})
        if n != size:
            return ("fixed type %s encodes to %d bytes, its size is %d" % (tname, n, size), {})
    return None


def check_case(schema, tname, val, codec=None, rw=None):
    rw = rw or RefWire(schema)
    codec = codec or pyh.PyCodec(schema)
    if codec is not None and tname is None and val is None and not any(
            len(v) > 1 for st_ in schema.structs() for v in st_.sizers().values()):
        try:
            bad = cpp_statics(schema)
            if bad:
                return (bad[0], bad[1])
        except Exception:
            pass
    for d in schema.decls:
        if isinstance(d, (Struct, Union, Typedef)):
            bad = check_type(schema, rw, codec, d)
            if bad:
                return bad
    if tname:
        return check_len(schema, rw, codec, tname, val)
    return None


def type_features(rw, d):
    feats = set()
    if isinstance(d, Typedef):
        return {'typedef'}
    feats |= gen.schema_features(rw, d.name)
    if isinstance(d, Struct):
        aligns = [f.align for f in rw.wire_fields(d)]
        if len(set(aligns)) > 1:
            feats.add('has_alignment_change')
        if len(d.members) >= 2:
            feats.add('multi_member')
    else:
        if len(d.arms) >= 2:
            feats.add('multi_member')
    return feats


def body(case, stats):
    schema, cases = case
    rw = RefWire(schema)
    text = schema.to_prophy()
    try:
        codec = pyh.PyCodec(schema, text)
    except Exception as ex:
        stats.notes['schema_not_usable(%s)' % type(ex).__name__] += 1
        return
    for d in schema.decls:
        if not isinstance(d, (Struct, Union, Typedef)):
            continue
        feats = type_features(rw, d)
        bad = check_type(schema, rw, codec, d)
        stats.case((text, d.name), 'multi_member' in feats and bool(feats & NONTRIVIAL), feats,
                   sample=lambda: {'schema': text, 'type': d.name,
                                   'layout(size,align,stiffness)': list(rw.layout(d.name))
                                   if not isinstance(d, Typedef) else None})
        if bad:
            fid = common.classify_known(ID, schema, rw, d.name, None, bad)
            if fid:
                stats.known_finding(fid, {'schema': text, 'type': d.name})
                continue
            raise Violation(bad[0], common.case_payload(schema, None, None, bad[1]))
    for tname, val in cases:
        bad = check_len(schema, rw, codec, tname, val)
        stats.notes['len_checks'] += 1
        if bad:
            fid = common.classify_known(ID, schema, rw, tname, val, bad)
            if fid:
                stats.known_finding(fid, lambda: common.sample(schema, tname, val, rw))
                continue
            raise Violation(bad[0], common.case_payload(schema, tname, val, bad[1]))


def cpp_statics(schema):
    """encoded_byte_size of the C++ full codec and sizeof of the raw struct for every composite.
    -> None | (what, details, type name)"""
    from vlib import cpph
    rw = RefWire(schema)
    full = cpph.FullTU(schema, sanitize=False, python=False)
    try:
        ebs = {}
        import subprocess
        p = subprocess.run([full.exe], input=b'consts\n', stdout=subprocess.PIPE, stderr=subprocess.PIPE, timeout=600)
        for l in p.stdout.decode().splitlines():
            if l.startswith('C '):
                _, name, val = l.split()
                ebs[name] = int(val.split('=')[1])
        # every encoding of a fixed type has exactly that length: the default-constructed object (absent optionals,
        # first union arm, empty limited arrays) through all six encoders
        fixed = [c.name for c in schema.composites() if rw.layout(c.name)[2] == FIXED]
        lens = {}
        if fixed:
            res = cpph.run_driver(full.exe, ['def %s < %s 0' % (n, cpph.hexarg(b'')) for n in fixed])
            for n, r in zip(fixed, res):
                if 'crash' in r:
                    return ("C++ full codec died encoding a default-constructed %s: %s" % (n, r['crash']),
                            {'stderr': r.get('stderr', '')[-800:]}, n)
                if r.get('ok'):
                    lens[n] = {'get_byte_size': r['gbs'], 'encode<little>(void*)': r['ptrL'],
                               'encode<big>(void*)': r['ptrB'], 'encode(void*)': r['ptrN'],
                               'encode<little>()': len(r['encL']), 'encode<big>()': len(r['encB'])}
    finally:
        full.cleanup()
    for c in schema.composites():
        size, align, stiff = rw.layout(c.name)
        want = size if stiff == FIXED else -1
        if ebs.get(c.name) != want:
            return ("C++ full codec: %s::encoded_byte_size is %r, wire rules say %r" % (c.name, ebs.get(c.name), want),
                    {'stiffness': KIND_NAMES[stiff]}, c.name)
        if c.name in lens and set(lens[c.name].values()) != {size}:
            return ("C++ full codec: a default-constructed %s (fixed, wire size %d) encodes to other lengths: %r" % (
                c.name, size, lens[c.name]), {'stiffness': KIND_NAMES[stiff]}, c.name)
    raw = cpph.RawTU(schema, sanitize=False)
    try:
        for label, want, got in raw.layout():
            # sizeof of fixed types and the padding prophyc emits: offsets of every member, alignment of every part
            if want != got:
                return ("raw C++ %s is %r, the wire layout says %r" % (label, got, want), {},
                        label.split(':')[0].split('.')[0])
    finally:
        raw.cleanup()
    return None


def cpp_part(widx, seed, tier, stats):
    from vlib import cpph, cppcamp
    n_tus = {'quick': 1, 'thorough': 12}[tier]
    opts = gen.GenOpts(cpp_full_ok=True, avoid=common.avoid_set(ID), big_sizes=False)
    cases = cppcamp.collect_cases(gen.schemas(opts), seed + 9, n_tus * 5)
    for i in range(0, len(cases), 5):
        chunk = cases[i:i + 5]
        merged, _ = cpph.merge_cases([(s, []) for s in chunk])
        try:
            bad = cpp_statics(merged)
        except pyh.CompileFailed:
            stats.notes['tu_refused'] += 1
            continue
        except cpph.BuildFailed as ex:
            msg = cpph.compile_errors(ex)
            if not msg:
                stats.notes['build_died_without_compiler_error'] += 1
                continue
            stats.violations.append({'what': "the generated C++ sources of accepted schemas do not compile: " + msg,
                                     'case': common.case_payload(merged, None, None, {'compiler': msg, 'cpp': True})})
            return
        rw = RefWire(merged)
        for c in merged.composites():
            feats = type_features(rw, c) | {'cpp'}
            stats.case((merged.to_prophy(), c.name, 'cpp'), 'multi_member' in feats and bool(feats & NONTRIVIAL), feats)
        if bad:
            # re-run the offending original schema alone for a small replay
            ci = int(bad[2].split('_')[0][1:]) if bad[2].startswith('P') else 0
            single = chunk[ci]
            bad1 = cpp_statics(single) or bad
            fid = common.classify_known(ID, single, RefWire(single), bad1[2] if bad1[2] in single.by_name else None, None, bad1)
            if fid:
                stats.known_finding(fid, {'schema': single.to_prophy()})
                continue
            stats.violations.append({'what': bad1[0], 'case': common.case_payload(single, None, None, dict(bad1[1], cpp=True))})
            return


def worker(widx, seed, tier, stats):
    n = {'quick': 300, 'thorough': 6000}[tier]
    opts = gen.GenOpts(avoid=common.avoid_set(ID), tail_focus=6, rich_size_exprs=True, oddunion_focus=6, smallopt_focus=6)
    runner.run_given(gen.schema_with_values(opts), body, seed, n, stats)
    if not stats.violations:
        cpp_part(widx, seed, tier, stats)


def run(tier, seed):
    t0 = time.time()
    stats = runner.run_workers(__name__, 'worker', seed, tier)
    common.run_regress(ID, stats, check_case)
    return runner.finish(ID, tier, seed, LEVEL, RULE, stats, t0, ASSUME)


def replay(payload):
    schema, tname, val = common.case_from_payload(payload)
    bad = check_case(schema, tname, val)
    if bad:
        print("VIOLATION property=%s replay=(given)\n  %s\n  %s" % (ID, bad[0], ir.dumps(bad[1])))
        return 1
    print("replay: property holds on this case")
    return 0
