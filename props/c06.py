"""C06 - Python decode is total: any bytes decode or raise ProphyError, nothing else.

fault enumeration over generated (schema, valid value):
  * every proper prefix of the valid encoding (exhaustive per message)
  * every control word located by RefWire's span map (array counter, optional flag, union discriminator,
    enum) replaced by each of {0,1,2,limit,limit+1,255,256,65535,65536,65537,2^31,2^32-1}
  * generated single-bit flips, zero / random extensions, pure random byte strings
oracle: decode returns or raises ProphyError (any other exception type is a violation); it terminates inside a
  watchdog; peak traced memory stays proportional to the input; whenever it returns, the message encodes and
  decode(encode(.)) is a fixpoint (same snapshot, same bytes).
thorough tier adds an atheris coverage-guided campaign over a pool of generated message types.
"""
import signal
import struct as _struct
import time
import tracemalloc

from hypothesis import strategies as st

from vlib import gen, ir, pyh, runner, common
from vlib.refwire import RefWire
from vlib.runner import Violation

ID = 'C06'
LEVEL = 'fault_enumeration'
RULE = ("cases = (generated schema, composite type, valid value, byte order, fault); faults: every proper prefix, "
        "every control word (counter/flag/discriminator/enum, found through the reference span map) x 12 boundary "
        "values, generated bit flips, extensions and random byte strings; non-trivial = the fault rewrites a "
        "control word, flips a bit inside a field, or cuts the input inside a field (not merely inside trailing "
        "padding); distinct = distinct hash of (schema text, type, byte order, faulted bytes)")
ASSUME = ["ProphyError is the only designed failure channel of decode (prophy/exception.py)",
          "memory bound: peak traced allocation <= 2 MiB + 600 x len(input) (inputs are < 64 KiB; typical decode "
          "allocates a few KiB); time bound: 20 s watchdog per call (typical call < 1 ms)"]

WATCHDOG_S = 20
MEM_BASE = 2 << 20
MEM_PER_BYTE = 600
CONTROL_VALUES = [0, 1, 2, 255, 256, 65535, 65536, 65537, 1 << 31, (1 << 32) - 1]


class _Timeout(BaseException):
    pass


def _alarm(signum, frame):
    raise _Timeout()


def guarded_decode(codec, tname, data, e, measure_mem=False):
    """-> ('ok', msg, n) | ('rejected', None, None) | ('violation', what, details)"""
    setup = pyh.setup_repo()
    import prophy
    msg = codec.new(tname)
    old = signal.signal(signal.SIGALRM, _alarm)
    signal.setitimer(signal.ITIMER_REAL, WATCHDOG_S, 1.0)   # repeating: a raise inside a gc callback is swallowed
    peak = None
    try:
        if measure_mem:
            tracemalloc.start()
        try:
            n = msg.decode(data, e)
        finally:
            if measure_mem:
                peak = tracemalloc.get_traced_memory()[1]
                tracemalloc.stop()
    except prophy.ProphyError:
        signal.setitimer(signal.ITIMER_REAL, 0)
        if peak is not None and peak > MEM_BASE + MEM_PER_BYTE * len(data):
            return ('violation', "decode of %d bytes allocated %d bytes before rejecting" % (len(data), peak),
                    {'peak': peak})
        return ('rejected', None, None)
    except _Timeout:
        return ('violation', "decode did not terminate within %d s" % WATCHDOG_S, {})
    except MemoryError:
        return ('violation', "decode raised MemoryError", {})
    except Exception as ex:
        signal.setitimer(signal.ITIMER_REAL, 0)
        return ('violation', "decode raised %s instead of ProphyError: %s" % (type(ex).__name__, str(ex)[:200]),
                {'exception': common.exc_info(ex)})
    finally:
        signal.setitimer(signal.ITIMER_REAL, 0)
        signal.signal(signal.SIGALRM, old)
    if peak is not None and peak > MEM_BASE + MEM_PER_BYTE * len(data):
        return ('violation', "decode of %d bytes allocated %d bytes" % (len(data), peak), {'peak': peak})
    return ('ok', msg, n)


def check_input(schema, codec, tname, data, e, measure_mem=False):
    """-> None | (what, details)"""
    res = guarded_decode(codec, tname, data, e, measure_mem)
    if res[0] == 'rejected':
        return None
    if res[0] == 'violation':
        return (res[1], dict(res[2], input=data.hex(), endianness=e))
    msg = res[1]
    base = {'input': data.hex(), 'endianness': e}
    # (the returned length is not judged here: C06 does not say how many bytes a lenient decode of a
    #  truncated input reports; exact consumption of valid encodings is C02)
    if not isinstance(res[2], int):
        return ("decode returned %r" % (res[2],), base)
    # accepted: must be encodable and a fixpoint
    try:
        snap1 = codec.snapshot(tname, msg)
    except Exception as ex:
        return ("decode accepted the input but reading the message back raised %s: %s" % (type(ex).__name__, ex),
                dict(base, exception=common.exc_info(ex)))
    try:
        enc2 = msg.encode(e)
    except Exception as ex:
        return ("decode accepted the input but encode of the result raised %s: %s" % (type(ex).__name__, ex),
                dict(base, exception=common.exc_info(ex)))
    res2 = guarded_decode(codec, tname, enc2, e)
    # documented exception (see C02): when the greedy tail of the decoded value does not end on the alignment
    # boundary, the trailing padding of its encoding is indistinguishable from (partial) elements; only
    # totality is required of the second decode then
    rw = RefWire(schema)
    greedy_unaligned = rw.has_greedy_tail(tname) and rw.trailing_padding_after_greedy(tname, snap1) != 0
    if greedy_unaligned:
        if res2[0] == 'violation':
            return (res2[1], dict(res2[2], input=enc2.hex(), endianness=e))
        return None
    if res2[0] != 'ok':
        return ("decode accepted the input but decoding the re-encoded message fails (%s)" % (res2[1] or 'rejected'),
                dict(base, reencoded=enc2.hex()))
    if res2[2] != len(enc2):
        return ("decoding the re-encoded message consumed %r of %d bytes" % (res2[2], len(enc2)),
                dict(base, reencoded=enc2.hex()))
    snap2 = codec.snapshot(tname, res2[1])
    if not pyh.values_equal(snap1, snap2):
        return ("decode/encode/decode is not a fixpoint (values differ)", dict(base, reencoded=enc2.hex(),
                first=ir.value_to_json(snap1), second=ir.value_to_json(snap2)))
    enc3 = res2[1].encode(e)
    if enc3 != enc2:
        return ("decode/encode/decode is not a fixpoint (bytes differ)", dict(base, reencoded=enc2.hex(),
                                                                             third=enc3.hex()))
    return None


def faults_for(rw, tname, val, e, flips, ext, limits):
    """Yield (descriptor, bytes, nontrivial, measure_mem)."""
    data, spans = rw.encode(tname, val, e)
    last_field_end = max([s[1] for s in spans] or [0])
    for n in range(len(data)):
        yield ('prefix', n), data[:n], n < last_field_end, False
    for s, en, role, width in spans:
        if role in ('counter', 'flag', 'disc', 'enum'):
            w = en - s
            code = {1: 'B', 2: 'H', 4: 'I', 8: 'Q'}[w]
            for v in CONTROL_VALUES + limits:
                if v >= (1 << (8 * w)):
                    continue
                mutated = data[:s] + _struct.pack(e + code, v) + data[en:]
                if mutated != data:
                    yield ('control', role, s, v), mutated, True, (role == 'counter')
    for frac, bit in flips:
        if data:
            pos = min(int(frac * len(data)), len(data) - 1)
            mutated = bytearray(data)
            mutated[pos] ^= (1 << bit)
            yield ('flip', pos, bit), bytes(mutated), pos < last_field_end, False
    for tail in ext:
        yield ('extend', len(tail)), data + tail, True, False


def limits_of(schema, tname):
    """array limits occurring in the type (limit and limit+1 are interesting counter values)"""
    out = set()
    t = schema.resolve(tname)
    stack = [t]
    seen = set()
    while stack:
        t = stack.pop()
        if isinstance(t, ir.Struct) and t.name not in seen:
            seen.add(t.name)
            for m in t.members:
                if m.kind == ir.LIMARR:
                    out.update([m.size, m.size + 1])
                if not m.is_bytes and m.type not in ir.NUMERIC:
                    stack.append(schema.resolve(m.type))
        elif isinstance(t, ir.Union) and t.name not in seen:
            seen.add(t.name)
            for a in t.arms:
                if a.type not in ir.NUMERIC:
                    stack.append(schema.resolve(a.type))
    return sorted(out)


def check_case(schema, tname, val, codec=None, rw=None, fault=None):
    """Replay entry: fault = {'input': hex, 'endianness': e}"""
    codec = codec or pyh.PyCodec(schema)
    data = bytes.fromhex(fault['input'])
    return check_input(schema, codec, tname, data, fault['endianness'], measure_mem=True)


@st.composite
def cases(draw, opts):
    schema, vals = draw(gen.schema_with_values(opts, roots='all'))
    flips = draw(st.lists(st.tuples(st.floats(0, 1, exclude_max=True), st.integers(0, 7)), min_size=4, max_size=12))
    ext = draw(st.lists(st.binary(min_size=1, max_size=9), min_size=1, max_size=3))
    rnd = draw(st.lists(st.binary(max_size=48), min_size=1, max_size=4))
    e = draw(st.sampled_from('<>'))
    return schema, vals, flips, ext, rnd, e


def body(case, stats):
    schema, vals, flips, ext, rnd, e = case
    rw = RefWire(schema)
    text = schema.to_prophy()
    try:
        codec = pyh.PyCodec(schema, text)
    except Exception as ex:
        stats.notes['schema_not_usable(%s)' % type(ex).__name__] += 1
        return
    for tname, val in vals:
        lims = limits_of(schema, tname)
        def run_one(desc, data, nontrivial, mem):
            bad = check_input(schema, codec, tname, data, e, mem)
            stats.case((text, tname, e, data), nontrivial, (desc[0],),
                       sample=lambda: {'schema': text, 'type': tname, 'endianness': e, 'fault': list(desc),
                                       'input': data.hex()})
            if bad:
                fid = common.classify_known(ID, schema, rw, tname, val, bad)
                if fid:
                    stats.known_finding(fid, {'schema': text, 'type': tname, 'input': data.hex()})
                    return
                payload = common.case_payload(schema, tname, val, bad[1])
                payload['fault'] = {'input': data.hex(), 'endianness': e, 'descriptor': list(desc)}
                raise Violation(bad[0], payload)
        for desc, data, nontrivial, mem in faults_for(rw, tname, val, e, flips, ext, lims):
            run_one(desc, data, nontrivial, mem)
        for r in rnd:
            run_one(('random', len(r)), r, len(r) > 0, True)


def worker(widx, seed, tier, stats):
    n = {'quick': 40, 'thorough': 250}[tier]
    opts = gen.GenOpts(avoid=common.avoid_set(ID), big_sizes=False, tiny_focus=6)
    runner.run_given(cases(opts), body, seed, n, stats)
    if tier == 'thorough' and not stats.violations:
        # coverage-guided campaign (atheris): even seeds start from canonical encodings, odd ones from nothing
        v = common.run_atheris(ID, seed % 100000 + widx, 400000, 180, stats)
        if v:
            stats.violations.append({'what': 'atheris: ' + v['what'], 'case': v['details']})


def run(tier, seed):
    t0 = time.time()
    stats = runner.run_workers(__name__, 'worker', seed, tier)
    common.run_regress(ID, stats, check_case)
    return runner.finish(ID, tier, seed, LEVEL, RULE, stats, t0, ASSUME)


def regress(stats):
    import glob, json, os
    for path in sorted(glob.glob(os.path.join(runner.VERIF, 'regress', ID, '*.json'))):
        payload = json.load(open(path))
        schema, tname, val = common.case_from_payload(payload)
        bad = check_case(schema, tname, val, fault=payload['case']['fault'])
        stats.notes['regress_cases'] += 1
        if bad:
            stats.violations.append({'what': 'regression input %s: %s' % (os.path.basename(path), bad[0]),
                                     'case': payload['case']})


def replay(payload):
    schema, tname, val = common.case_from_payload(payload)
    bad = check_case(schema, tname, val, fault=payload['case']['fault'])
    if bad:
        print("VIOLATION property=%s replay=(given)\n  %s\n  %s" % (ID, bad[0], ir.dumps(bad[1])))
        return 1
    print("replay: property holds on this case")
    return 0
