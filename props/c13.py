"""C13 - prophyc always terminates with outputs or a designed diagnostic.

generator : option vectors x inputs: valid schemas; token-level mutants; structure-level mutants (use before
            definition, self- and mutually recursive structs / typedefs / constants in isar where order is free);
            random token soup and random Unicode text; isar XML with missing attributes, unknown dimension forms,
            malformed XML; missing, self- and mutually cyclic includes; patch files of random words.
oracle    : prophyc.main(args) under a SIGALRM watchdog either returns having written every requested output file,
            or raises ProphycError / SystemExit (argparse) / the plain Exception of the patch module / the file
            processor's own errors.  Violation: timeout, or an escaping ValueError, LookupError (Key/Index),
            AttributeError, TypeError, AssertionError, RecursionError, ArithmeticError (ZeroDivisionError) or OSError
            (e.g. IsADirectoryError for an include that names a directory).  Failures are bucketed by (exception type,
            innermost prophyc frame) so that one run enumerates root causes; the smallest input per bucket is kept.
            A sample of inputs is replayed through `python -m prophyc` to confirm exit status != 0 with stderr text.
"""
import os
import shutil
import signal
import subprocess
import sys
import time
import traceback

from hypothesis import strategies as st

from vlib import gen, ir, pyh, runner, common
from vlib.ir import Struct, Union, Typedef, Const, Enum, Member, Arm, Schema, PLAIN
from props import c12

ID = 'C13'
LEVEL = 'exploration'
RULE = ("cases = (option vector, input files); non-trivial = the input differs from a valid schema and reaches a "
        "parser (not rejected by option parsing); distinct = distinct hash of (arguments, file contents)")
ASSUME = ["inputs are valid UTF-8 (UnicodeDecodeError is outside the domain)",
          "xml.etree ParseError is bucketed and reported in evidence but not judged (the property's list does not name "
          "it)", "watchdog 30 s against a typical run of 15 ms"]
WATCHDOG_S = 30
FORBIDDEN = (ValueError, LookupError, AttributeError, TypeError, AssertionError, RecursionError, ArithmeticError,
             OSError)


class _Timeout(BaseException):
    pass


def _alarm(signum, frame):
    raise _Timeout()


def run_main(args):
    """-> ('ok', None) | ('designed', text) | ('violation', what, bucket) | ('other', bucket)"""
    pyh.setup_repo()
    import prophyc
    old = signal.signal(signal.SIGALRM, _alarm)
    signal.setitimer(signal.ITIMER_REAL, WATCHDOG_S, 1.0)   # repeating: a raise inside a gc callback is swallowed
    try:
        import contextlib, io
        with pyh.quiet_stderr(), contextlib.redirect_stdout(io.StringIO()):
            prophyc.main(list(args))
        return ('ok', None)
    except _Timeout:
        return ('violation', 'prophyc did not terminate within %d s' % WATCHDOG_S, 'timeout')
    except prophyc.ProphycError as ex:
        return ('designed', str(ex))
    except SystemExit as ex:
        return ('designed', 'SystemExit %s' % ex)
    except FORBIDDEN as ex:
        if deliberately_raised(ex):
            # an explicit `raise X("message")` statement inside prophyc is a designed diagnostic whatever its class
            # (e.g. isar's 'Duplicate Enum value' ValueError, pinned by the suite); internal exceptions are the
            # ones that operations raise (None + str, missing key, failed unpacking)
            return ('designed', str(ex))
        return ('violation', 'internal %s escaped from prophyc.main: %s' % (type(ex).__name__, str(ex)[:200]),
                bucket_of(ex))
    except RecursionError as ex:
        return ('violation', 'RecursionError escaped from prophyc.main', 'RecursionError')
    except Exception as ex:
        return ('other', bucket_of(ex), str(ex)[:200])
    finally:
        signal.setitimer(signal.ITIMER_REAL, 0)
        signal.signal(signal.SIGALRM, old)


def deliberately_raised(ex):
    tb = traceback.extract_tb(ex.__traceback__)
    if not tb:
        return False
    last = tb[-1]
    return '/prophyc/' in last.filename and (last.line or '').strip().startswith('raise ')


def bucket_of(ex):
    tb = traceback.extract_tb(ex.__traceback__)
    inner = None
    for fr in tb:
        if '/prophyc/' in fr.filename:
            inner = fr
    where = '%s:%s' % (os.path.basename(inner.filename), inner.name) if inner else '?'
    return '%s@%s' % (type(ex).__name__, where)


# ------------------------------------------------------------------------------------------ inputs
WORDS = ['struct', 'union', 'enum', 'const', 'typedef', 'bytes', 'u8', 'u32', 'i64', 'float', 'double', '{', '}', ';',
         ':', '=', ',', '<', '>', '[', ']', '<...>', '<>', '@', '*', '/', '+', '-', '<<', '>>', '(', ')', '#include',
         '"x.prophy"', '0', '1', '0x10', '077', '08', '4294967296', '-1', 'A', 'B', 'x', 'y', 'num_of_x', '//', '/*',
         '*/', '\n', '#', '"', '...', 'ąę', '\t']


@st.composite
def refgraphs(draw):
    """A random *functional graph* of definitions: every name is defined by one other generated name (or by itself, or
    by a terminal), so direct self references, cycles of any length and chains that lead into a cycle (U -> T -> T) all
    occur; then definitions that use those names where a type, an array size, a constant, an enumerator value or a
    discriminator is expected, bare or inside an expression.  -> (defs, users)"""
    n = draw(st.integers(1, 5))
    names = ['G%d' % i for i in range(n)]
    defs = []
    for i, nm in enumerate(names):
        kind = draw(st.sampled_from(['typedef', 'typedef', 'const', 'const', 'enumerator']))
        tgt = draw(st.sampled_from(names + ['#'])) if draw(st.integers(0, 5)) else '#'
        wrap = draw(st.sampled_from(['%s', '%s', '%s*2', '%s + 1', '(%s)', '1 + %s', '-%s'])) if kind != 'typedef' else '%s'
        defs.append((kind, nm, tgt, wrap))
    users = []
    for _ in range(draw(st.integers(1, 3))):
        how = draw(st.sampled_from(['member', 'size', 'size_expr', 'const', 'const_expr', 'enumerator', 'disc', 'opt',
                                    'dynarr', 'arm', 'sizer', 'sizer']))
        users.append((how, draw(st.sampled_from(names))))
    if draw(st.booleans()):
        defs = draw(st.permutations(defs))
    return list(defs), users


def refgraph_isar(defs, users):
    out = []
    for kind, nm, tgt, wrap in defs:
        if kind == 'typedef':
            out.append('<typedef name="%s" type="%s"/>' % (nm, tgt) if tgt != '#' else
                       '<typedef name="%s" primitiveType="32 bit integer unsigned"/>' % nm)
        elif kind == 'const':
            out.append('<constant name="%s" value="%s"/>' % (nm, wrap % tgt if tgt != '#' else '3'))
        else:
            out.append('<enum name="E%s"><enum-member name="%s" value="%s"/></enum>' % (
                nm, nm, wrap % tgt if tgt != '#' else '2'))
    for i, (how, nm) in enumerate(users):
        if how == 'member':
            out.append('<struct name="W%d"><member name="a" type="%s"/></struct>' % (i, nm))
        elif how == 'opt':
            out.append('<struct name="W%d"><member name="a" type="%s" optional="true"/></struct>' % (i, nm))
        elif how == 'dynarr':
            out.append('<struct name="W%d"><member name="a" type="%s"><dimension isVariableSize="true"/></member>'
                       '</struct>' % (i, nm))
        elif how == 'sizer':
            out.append('<struct name="W%d"><member name="n" type="%s"/><member name="a" type="u8">'
                       '<dimension variableSizeFieldName="@n"/></member></struct>' % (i, nm))
        elif how == 'size':
            out.append('<struct name="W%d"><member name="a" type="u8"><dimension size="%s"/></member></struct>' % (i, nm))
        elif how == 'size_expr':
            out.append('<struct name="W%d"><member name="a" type="u8"><dimension size="%s*2"/></member></struct>' % (i, nm))
        elif how == 'const':
            out.append('<constant name="W%d" value="%s"/>' % (i, nm))
        elif how == 'const_expr':
            out.append('<constant name="W%d" value="%s + 1"/>' % (i, nm))
        elif how == 'enumerator':
            out.append('<enum name="W%d"><enum-member name="W%d_a" value="%s"/></enum>' % (i, i, nm))
        elif how == 'disc':
            out.append('<union name="W%d"><member name="a" type="u8" discriminatorValue="%s"/></union>' % (i, nm))
        else:
            out.append('<union name="W%d"><member name="a" type="%s" discriminatorValue="1"/></union>' % (i, nm))
    return out


def refgraph_prophy(defs, users):
    out = []
    for kind, nm, tgt, wrap in defs:
        if kind == 'typedef':
            out.append('typedef %s %s;' % (tgt if tgt != '#' else 'u32', nm))
        elif kind == 'const':
            out.append('const %s = %s;' % (nm, wrap % tgt if tgt != '#' else '3'))
        else:
            out.append('enum E%s\n{\n    %s = %s\n};' % (nm, nm, wrap % tgt if tgt != '#' else '2'))
    for i, (how, nm) in enumerate(users):
        if how == 'member':
            out.append('struct W%d\n{\n    %s a;\n};' % (i, nm))
        elif how == 'opt':
            out.append('struct W%d\n{\n    %s* a;\n};' % (i, nm))
        elif how == 'dynarr':
            out.append('struct W%d\n{\n    %s a<>;\n};' % (i, nm))
        elif how == 'sizer':
            out.append('struct W%d\n{\n    %s n;\n    u8 a<@n>;\n};' % (i, nm))
        elif how == 'size':
            out.append('struct W%d\n{\n    u8 a[%s];\n};' % (i, nm))
        elif how == 'size_expr':
            out.append('struct W%d\n{\n    u8 a[%s*2];\n};' % (i, nm))
        elif how == 'const':
            out.append('const W%d = %s;' % (i, nm))
        elif how == 'const_expr':
            out.append('const W%d = %s + 1;' % (i, nm))
        elif how == 'enumerator':
            out.append('enum W%d\n{\n    W%d_a = %s\n};' % (i, i, nm))
        elif how == 'disc':
            out.append('union W%d\n{\n    %s: u8 a;\n};' % (i, nm))
        else:
            out.append('union W%d\n{\n    1: %s a;\n};' % (i, nm))
    return '\n'.join(out) + '\n'


# how an include names a file of the same directory; @DIR@ is replaced by the directory's own name when the files are
# written (cycles must be recognised whatever the spelling, for relative and absolute main paths alike)
SPELLINGS = ['', '', './', '../@DIR@/', './/', '../@DIR@/./']


@st.composite
def prophy_inputs(draw):
    """-> (label, {relative path: text}, main file)"""
    schema = draw(gen.schemas(gen.GenOpts(max_decls=4, big_sizes=False)))
    text = schema.to_prophy()
    kind = draw(st.sampled_from(['valid', 'mutant', 'mutant', 'soup', 'unicode', 'division', 'shift', 'crlf', 'self_include',
                                 'mutual_include', 'missing_include', 'use_before_def', 'recursive', 'refgraph']))
    files = {}
    if kind == 'valid':
        files['m.prophy'] = text
    elif kind == 'mutant':
        files['m.prophy'] = c12.token_mutant(draw, text)
    elif kind == 'soup':
        files['m.prophy'] = ' '.join(draw(st.lists(st.sampled_from(WORDS), max_size=40)))
    elif kind == 'unicode':
        files['m.prophy'] = draw(st.text(max_size=60))
    elif kind == 'division':
        a, b = draw(st.integers(0, 9)), draw(st.integers(0, 3))
        op = draw(st.sampled_from(['/', '>>', '<<', '*', '-']))
        files['m.prophy'] = ('const A = %d %s %d;\nconst B = A %s 2;\nstruct S\n{\n    u8 x[B + 1];\n};\n'
                             'union U\n{\n    A: u8 a;\n    B + 9: u8 b;\n};\n' % (a, op, b, op))
    elif kind == 'crlf':
        # Windows line endings; optionally a comment opened somewhere and never closed (truncated / corrupted file)
        body = (text + text).replace('\n', '\r\n')
        toks = body.split(' ')
        if draw(st.booleans()):
            pos = draw(st.integers(0, max(len(toks) - 1, 0)))
            toks.insert(pos, draw(st.sampled_from(['/*', '/* note', '//', '*/', '/*/'])))
        files['m.prophy'] = ' '.join(toks)
    elif kind == 'shift':
        a = draw(st.sampled_from([-1, -3, -64, 0, 1, 64, 4000, 100000]))
        op = draw(st.sampled_from(['<<', '>>']))
        form = draw(st.integers(0, 2))
        files['m.prophy'] = ['const A = 1 %s %d;\n' % (op, a),
                             'enum E\n{\n    E_a = 2 %s (%d)\n};\n' % (op, a),
                             'const N = %d;\nstruct S\n{\n    u8 x[1 %s N];\n};\n' % (a, op)][form] + text
    elif kind == 'self_include':
        files['m.prophy'] = '#include "%sm.prophy"\n' % draw(st.sampled_from(SPELLINGS)) + text
    elif kind == 'mutual_include':
        files['m.prophy'] = '#include "%sn.prophy"\n' % draw(st.sampled_from(SPELLINGS)) + text
        files['n.prophy'] = '#include "%sm.prophy"\nconst NN = 1;\n' % draw(st.sampled_from(SPELLINGS))
    elif kind == 'missing_include':
        files['m.prophy'] = '#include "nothere.prophy"\n' + text
    elif kind == 'refgraph':
        files['m.prophy'] = refgraph_prophy(*draw(refgraphs())) + (text if draw(st.booleans()) else '')
    elif kind == 'use_before_def':
        files['m.prophy'] = 'struct A\n{\n    B b;\n};\nstruct B\n{\n    u8 x;\n};\n' + text
    else:
        which = draw(st.integers(0, 3))
        files['m.prophy'] = ['struct A\n{\n    A a;\n};\n', 'typedef T T;\n', 'const C = C + 1;\n',
                             'struct A\n{\n    A a<>;\n};\nunion U\n{\n    1: U u;\n};\n'][which] + text
    return kind, files, 'm.prophy'


ISAR_FRAGMENTS = [
    '<struct name="A"><member name="b" type="B"/></struct><struct name="B"><member name="a" type="A"/></struct>',
    '<struct name="A"><member name="a" type="A"/></struct>',
    '<typedef name="T" type="T"/>',
    '<typedef name="A" type="A"/><struct name="SA"><member name="a" type="A"/></struct>',
    '<typedef name="A1" type="A2"/><typedef name="A2" type="A1"/><struct name="SA"><member name="a" type="A1"/></struct>',
    '<struct name="Msg"><member name="a" type="CA"/></struct><struct name="CA"><member name="b" type="CB"/></struct>'
    '<struct name="CB"><member name="a" type="CA"/></struct>',
    '<constant name="SH" value="1 << -1"/>',
    '<constant name="HALF" value="1 +"/><struct name="S"><member name="x" type="u8"><dimension size="HALF"/></member></struct>',
    '<struct name="S"><member name="x" type="u8"><dimension size="2 *"/></member></struct>',
    '<struct name="S"><member name="x" type="u8"><dimension size="4 / 0"/></member></struct>',
    '<struct name="S"><member name="x" type="u8"><dimension size="(2"/></member></struct>',
    '<enum name="E"><enum-member name="a" value="1 / 0"/></enum><struct name="S"><member name="x" type="u8"><dimension size="a"/></member></struct>',
    '<constant name="SH" value="shiftLeft(1, -2)"/><struct name="S"><member name="x" type="u8"><dimension size="SH"/></member></struct>',
    '<constant name="SH" value="1 >> -1"/><enum name="E"><enum-member name="a" value="SH"/></enum>',
    '<typedef name="T1" type="T2"/><typedef name="T2" type="T1"/>',
    '<constant name="C" value="C"/>',
    '<constant name="C1" value="C2 + 1"/><constant name="C2" value="C1 + 1"/>',
    '<enum name="E"><enum-member name="E_a" value="E_b"/><enum-member name="E_b" value="E_a"/></enum>',
    '<union name="U"><member name="u" type="U" discriminatorValue="1"/></union>',
    '<struct name="S"><member name="x" type="u8"><dimension/></member></struct>',
    '<struct name="S"><member name="x" type="u8"><dimension size=""/></member></struct>',
    '<struct name="S"><member type="u8"/></struct>',
    '<struct name="S"><member name="x"/></struct>',
    '<struct><member name="x" type="u8"/></struct>',
    '<struct name="S"><member name="x" type="u8"><dimension variableSizeFieldName=""/></member></struct>',
    '<struct name="S"><member name="x" type="u8"><dimension variableSizeFieldName="@"/></member></struct>',
    '<struct name="S"><member name="x" type="u8"><dimension size="A*"/></member></struct>',
    '<struct name="S"><member name="x" type="u8"><dimension size="N" size2="M"/></member></struct>',
    '<struct name="S"><member name="x" type="u8" optional="true"><dimension size="2"/></member></struct>',
    '<typedef name="T" primitiveType="128 bit integer"/>',
    '<typedef name="T"/>',
    '<constant name="C"/>',
    '<constant value="1"/>',
    '<constant name="C" value="shiftLeft(1"/>',
    '<constant name="C" value="bitMaskOr(1, 2)"/>',
    '<constant name="C" value="1 / 0"/><struct name="S"><member name="x" type="u8"><dimension size="C"/></member></struct>',
    '<enum name="E"><enum-member name="a" value="0x"/></enum>',
    '<enum name="E"><enum-member name="a" value="1"/><enum-member name="b" value="1"/></enum>',
    '<enum name="E"><enum-member name="a"/></enum>',
    '<union name="U"><member name="a" type="u8"/></union>',
    '<union name="U"><member type="u8" discriminatorValue="1"/></union>',
    '<message name="M"><member name="x" type="u8"><dimension isVariableSize="true"/></member>'
    '<member name="y" type="u8"><dimension isVariableSize="true"/></member></message>',
    '<xi:include xmlns:xi="http://www.w3.org/2001/XInclude" href="m.xml"/>',
    '<xi:include xmlns:xi="http://www.w3.org/2001/XInclude" href="./m.xml"/>',
    '<xi:include xmlns:xi="http://www.w3.org/2001/XInclude" href="../@DIR@/m.xml"/>',
    '<xi:include xmlns:xi="http://www.w3.org/2001/XInclude" href="nothere.xml"/>',
    '<xi:include xmlns:xi="http://www.w3.org/2001/XInclude" href=""/>',
    '<struct name="S"><member name="a" type="u8"/><member name="a" type="u8"/></struct>',
    '<struct name="S"/><struct name="S"><member name="a" type="S"/></struct>',
    '<constant name="BL" value="shiftLeft(1,,,,,,,,,,,,2) shiftLeft(1,,,,,,,,,,,,2) shiftLeft(1,,,,,,,,,,,,2)"/>',
    '<constant name="BM" value="bitMaskOr(1,,2) bitMaskOr((1,2),(3,,4)) shiftLeft(,)"/>',
    '<struct name="A&#10;B" comment="hello"><member name="a" type="u8"/></struct>',
    '<struct name="SC" comment="line one&#10;line two"><member name="a&#10;b" type="u8" comment="x"/></struct>',
    '<enum name="E&#9;X" comment="c"><enum-member name="a b" value="1" comment="d&#10;e"/></enum>',
    '<typedef name="T T" type="u8" comment="hello"/><constant name="C&#10;" value="1" comment="hello"/>',
]


@st.composite
def isar_inputs(draw):
    schema = draw(gen.schemas(gen.GenOpts(max_decls=4, big_sizes=False, allow_greedy=False, enum_aliases=False)))
    body = [ir.render_isar_decl(d) for d in schema.decls]
    kind = draw(st.sampled_from(['valid', 'fragment', 'fragment', 'drop_attr', 'malformed', 'text_mutation', 'refgraph',
                                 'refgraph']))
    if kind == 'fragment':
        frags = draw(st.lists(st.sampled_from(ISAR_FRAGMENTS), min_size=1, max_size=3))
        pos = draw(st.integers(0, len(body)))
        body[pos:pos] = frags
        xml = '<x>%s</x>' % '\n'.join(body)
    elif kind == 'refgraph':
        frags = refgraph_isar(*draw(refgraphs()))
        if draw(st.booleans()):
            body = []
        pos = draw(st.integers(0, len(body)))
        body[pos:pos] = frags
        xml = '<x>%s</x>' % '\n'.join(body)
    elif kind == 'drop_attr':
        xml = '<x>%s</x>' % '\n'.join(body)
        import re
        attrs = list(re.finditer(r' \w+="[^"]*"', xml))
        if attrs:
            a = draw(st.sampled_from(attrs))
            xml = xml[:a.start()] + xml[a.end():]
    elif kind == 'malformed':
        xml = '<x>%s</x>' % '\n'.join(body)
        cut = draw(st.integers(0, len(xml)))
        xml = xml[:cut]
    elif kind == 'text_mutation':
        xml = '<x>%s</x>' % '\n'.join(body)
        i = draw(st.integers(0, max(len(xml) - 1, 0)))
        xml = xml[:i] + draw(st.sampled_from(['<', '>', '"', '&', 'x', '0', ' ', '/', '@', '*', '(', '', '&#10;', '&#9;', '&amp;', '&lt;', '\n'])) + xml[i + 1:]
    else:
        xml = '<x>%s</x>' % '\n'.join(body)
    return kind, {'m.xml': xml}, 'm.xml'


PATCH_WORDS = ['S1', 'S2', 'U1', 'X', 'type', 'insert', 'remove', 'dynamic', 'greedy', 'static', 'limited', 'struct',
               'rename', 'a', 'b', 'x', 'u8', 'u32', '0', '1', '999', '-1', 'zz', '', 'ą']


@st.composite
def cases(draw):
    isar = draw(st.integers(0, 2)) == 0
    kind, files, main = draw(isar_inputs() if isar else prophy_inputs())
    outs = draw(st.lists(st.sampled_from(['--python_out', '--cpp_out', '--cpp_full_out', '--prophy_out']),
                         unique=True, max_size=4))
    extra = []
    opt = draw(st.integers(0, 19))
    if opt == 0:
        extra = ['--bogus']
    elif opt == 1:
        extra = ['--isar', '--sack']
    elif opt == 2:
        extra = ['--version']
    elif opt == 3:
        extra = ['-I', 'no/such/dir']
    elif opt == 4:
        extra = ['--patch', 'no_such_patch.txt']
    elif opt == 5:
        extra = ['--quiet']
    elif opt == 6:
        extra = ['--void_out']
    patch = None
    if draw(st.integers(0, 3)) == 0:
        lines = draw(st.lists(st.lists(st.sampled_from(PATCH_WORDS), max_size=5).map(' '.join), max_size=4))
        patch = '\n'.join(lines) + '\n'
    missing_input = draw(st.integers(0, 24)) == 0
    return isar, kind, files, main, outs, extra, patch, missing_input


def build_args(work, isar, files, main, outs, extra, patch, missing_input):
    for fn, text in files.items():
        with open(os.path.join(work, fn), 'w', encoding='utf-8') as f:
            f.write(text.replace('@DIR@', os.path.basename(work)))
    out = os.path.join(work, 'out')
    os.makedirs(out, exist_ok=True)
    args = []
    if isar:
        args.append('--isar')
    for o in outs:
        args += [o, out]
    args += [x if not x.startswith('no') else os.path.join(work, x) for x in extra]
    if patch is not None:
        with open(os.path.join(work, 'p.txt'), 'w', encoding='utf-8') as f:
            f.write(patch)
        args += ['--patch', os.path.join(work, 'p.txt')]
    if not missing_input:
        args.append(os.path.join(work, main))
    return args, out


EXT = {'--python_out': ['.py'], '--cpp_out': ['.pp.hpp', '.pp.cpp'], '--cpp_full_out': ['.ppf.hpp', '.ppf.cpp'],
       '--prophy_out': ['.prophy']}


def check_case(isar, kind, files, main, outs, extra, patch, missing_input):
    """-> (status, what, bucket)"""
    work = pyh.fresh_dir('c13')
    try:
        args, out = build_args(work, isar, files, main, outs, extra, patch, missing_input)
        cwd = os.getcwd()
        if len(files.get(main, '')) % 3 == 0 and args and args[-1] == os.path.join(work, main):
            # a third of the cases name the main file relative to the working directory
            os.chdir(work)
            args[-1] = main
        try:
            res = run_main(args)
        finally:
            os.chdir(cwd)
        if res[0] == 'ok' and '--version' not in extra:
            stem = os.path.splitext(main)[0]
            for o in outs:
                for ext in EXT[o]:
                    if not os.path.exists(os.path.join(out, stem + ext)):
                        return ('violation', 'prophyc succeeded without writing %s%s' % (stem, ext), 'missing-output')
        return res
    finally:
        shutil.rmtree(work, ignore_errors=True)


def body(case, stats):
    isar, kind, files, main, outs, extra, patch, missing_input = case
    res = check_case(*case)
    reached = not (extra and extra[0] in ('--bogus', '--isar', '--version')) and not missing_input
    size = sum(len(t) for t in files.values()) + len(patch or '')
    stats.case((isar, tuple(sorted(files.items())), tuple(outs), tuple(extra), patch, missing_input),
               kind != 'valid' and reached, ('isar' if isar else 'prophy', kind, 'outcome:' + res[0]),
               sample=lambda: {'isar': isar, 'kind': kind, 'files': files, 'outs': outs, 'extra': extra,
                               'patch': patch})
    if res[0] == 'other':
        stats.notes['unjudged:' + res[1]] += 1
    if res[0] == 'violation':
        bucket = res[2]
        fid = classify(bucket)
        if fid:
            stats.known_finding(fid, {'bucket': bucket, 'files': files, 'patch': patch})
            return
        key = 'bucket:' + bucket
        prev = getattr(stats, '_c13', None)
        if prev is None:
            prev = stats._c13 = {}
        if key not in prev or size < prev[key][0]:
            prev[key] = (size, {'what': '%s [%s]' % (res[1], bucket),
                                'case': {'details': {'isar': isar, 'kind': kind, 'files': files, 'outs': outs,
                                                     'extra': extra, 'patch': patch, 'missing_input': missing_input,
                                                     'bucket': bucket}}})


def classify(bucket):
    kf = runner.known_findings()
    for fid, e in kf.open.items():
        if ID in e.get('properties', []) and bucket in e.get('buckets', []):
            return fid
    return None


def worker(widx, seed, tier, stats):
    n = {'quick': 400, 'thorough': 12000}[tier]
    runner.run_given(cases(), body, seed, n, stats, shrink=False)
    for size, v in getattr(stats, '_c13', {}).values():
        stats.violations.append(v)
    if widx == 0:
        subprocess_sample(stats)
    if tier == 'thorough' and not stats.violations:
        v = common.run_atheris(ID, seed % 100000 + widx, 100000, 180, stats)
        if v:
            stats.violations.append({'what': 'atheris: ' + v['what'], 'case': {'details': v['details']}})


def subprocess_sample(stats):
    """`python -m prophyc` on a few broken inputs: exit status != 0 and a message on stderr."""
    work = pyh.fresh_dir('c13s')
    try:
        samples = {'syntax.prophy': 'struct X { u8 a }', 'soup.prophy': '}}} ;;; struct',
                   'undeclared.prophy': 'struct X\n{\n    Y a;\n};\n'}
        env = dict(os.environ, PYTHONPATH=os.path.abspath(pyh.REPO))
        for fn, text in samples.items():
            p = os.path.join(work, fn)
            with open(p, 'w') as f:
                f.write(text)
            r = subprocess.run([sys.executable, '-m', 'prophyc', '--python_out', work, p], env=env,
                               stdout=subprocess.PIPE, stderr=subprocess.PIPE, timeout=600)
            stats.notes['subprocess_runs'] += 1
            if r.returncode == 0 or not r.stderr.strip():
                stats.violations.append({'what': '`python -m prophyc` on %s: exit status %d, stderr %r' % (
                    fn, r.returncode, r.stderr[:100]), 'case': {'details': {'files': {fn: text}}}})
            elif b'Traceback' in r.stderr:
                stats.violations.append({'what': '`python -m prophyc` on %s printed a traceback' % fn,
                                         'case': {'details': {'files': {fn: text}, 'stderr': r.stderr.decode()[-500:]}}})
    finally:
        shutil.rmtree(work, ignore_errors=True)


def regress(stats):
    import glob, json
    for path in sorted(glob.glob(os.path.join(runner.VERIF, 'regress', ID, '*.json'))):
        d = json.load(open(path))['case']['details']
        res = check_case(d['isar'], d['kind'], d['files'], 'm.xml' if d['isar'] else 'm.prophy', d['outs'], d['extra'],
                         d['patch'], d.get('missing_input', False))
        stats.notes['regress_cases'] += 1
        if res[0] == 'violation' and not classify(res[2]):
            stats.violations.append({'what': 'regression input %s: %s [%s]' % (os.path.basename(path), res[1], res[2]),
                                     'case': {'details': d}})
        elif res[0] == 'violation':
            stats.known_finding(classify(res[2]), os.path.basename(path))


def run(tier, seed):
    t0 = time.time()
    stats = runner.run_workers(__name__, 'worker', seed, tier)
    regress(stats)
    return runner.finish(ID, tier, seed, LEVEL, RULE, stats, t0, ASSUME)


def replay(payload):
    d = payload['case']['details']
    res = check_case(d['isar'], d['kind'], d['files'], 'm.xml' if d['isar'] else 'm.prophy', d['outs'], d['extra'],
                     d['patch'], d.get('missing_input', False))
    if res[0] == 'violation':
        print("VIOLATION property=%s replay=(given)\n  %s [%s]" % (ID, res[1], res[2]))
        return 1
    print("replay: property holds on this case (%s)" % res[0])
    return 0
