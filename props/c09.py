"""C09 - raw C++ swap converts a whole foreign-endian message to native in place.

generator : SchemaGen x ValueGen (any counts, optional / union states, nested dynamic structs in dynamic arrays)
oracle    : the big-endian RefWire bytes are placed in an 8-aligned exact-size heap block (ASan red zones act as
            canaries); after prophy::swap<T> the block must equal the little-endian RefWire bytes and the returned
            pointer must be block + len.  With a greedy tail only the bytes before the outermost unlimited member
            are compared and the returned pointer must be that member's address.
"""
import time

from vlib import gen, ir, pyh, cpph, runner, common
from vlib.ir import Struct, PLAIN, GREEDY
from vlib.refwire import RefWire, roundup
from vlib.runner import Violation

ID = 'C09'
LEVEL = 'exploration'
RULE = ("cases = (generated schema, composite type, generated value): big-endian canonical bytes swapped in place by "
        "the generated prophy::swap under ASan+UBSan; non-trivial = the message has >= 2 parts, a dynamic array of "
        "composites, an optional or a union; distinct = distinct hash of (schema text, type, value)")
ASSUME = ["x86-64 little-endian host: foreign = big endian", "RefWire gives both encodings and the offset of the "
          "outermost unlimited member"]
NONTRIVIAL = {'field_after_dynamic', 'dynamic_struct_in_dynamic_array', 'optional', 'union', 'nested_composite'}


def unlimited_member_offset(rw, tname, val):
    """Offset of the last member of the outermost struct when that member is greedy / of unlimited type."""
    t = rw.s.resolve(tname)
    if not isinstance(t, Struct) or rw.layout(t.name)[2] != ir.UNLIMITED:
        return None
    return rw.last_member_offset(tname, val)


def judge(rw, tname, val, res):
    le = rw.encode(tname, val, '<')[0]
    if 'crash' in res:
        return ("prophy::swap died: %s" % res['crash'], {'stderr': res.get('stderr', '')[-1500:]})
    cut = unlimited_member_offset(rw, tname, val)
    if cut is None:
        if res['buf'] != le:
            first = next(i for i in range(len(le)) if res['buf'][i:i + 1] != le[i:i + 1])
            return ("buffer after swap differs from the native encoding at offset %d" % first,
                    {'after_swap': res['buf'].hex(), 'native': le.hex()})
        if res['end'] != len(le):
            return ("swap returned buffer+%d, the message is %d bytes" % (res['end'], len(le)), {})
    else:
        if res['buf'][:cut] != le[:cut]:
            return ("bytes before the unlimited member differ from the native encoding",
                    {'after_swap': res['buf'][:cut].hex(), 'native': le[:cut].hex()})
        if res['end'] != cut:
            salign = rw.layout(tname)[1]
            return ("swap returned buffer+%d, the unlimited member is at offset %d" % (res['end'], cut),
                    {'x9_signature': res['end'] == roundup(cut, salign), 'struct_alignment': salign})
    return None


def check_case(schema, tname, val):
    sub = schema
    tu = cpph.RawTU(sub, sanitize=True)
    try:
        rw = RefWire(sub)
        res = tu.swap([(tname, rw.encode(tname, val, '>')[0])])[0]
        bad = judge(rw, tname, val, res)
        if bad:
            return (bad[0], dict(bad[1], big_endian_input=rw.encode(tname, val, '>')[0].hex()))
        return None
    finally:
        tu.cleanup()


def body(case, stats):
    schema, cases = case
    rw = RefWire(schema)
    text = schema.to_prophy()
    try:
        tu = cpph.RawTU(schema, sanitize=True)
    except pyh.CompileFailed:
        stats.notes['schema_refused'] += 1
        return
    except cpph.BuildFailed as ex:
        # there is no swap to call when the generated sources do not compile
        msg = cpph.compile_errors(ex)
        if not msg:
            stats.notes['build_died_without_compiler_error'] += 1
            return
        raise Violation("the raw C++ sources (swap) generated for an accepted schema do not compile: " + msg,
                        common.case_payload(schema, None, None, {'compiler': msg}))
    try:
        results = tu.swap([(t, rw.encode(t, v, '>')[0]) for t, v in cases])
    finally:
        tu.cleanup()
    for (tname, val), res in zip(cases, results):
        feats = gen.schema_features(rw, tname) | gen.value_features(rw, tname, val)
        bad = judge(rw, tname, val, res)
        stats.case((text, tname, repr(val)), bool(feats & NONTRIVIAL), feats,
                   sample=lambda: common.sample(schema, tname, val, rw))
        if bad:
            fid = common.classify_known(ID, schema, rw, tname, val, bad)
            if fid:
                stats.known_finding(fid, lambda: common.sample(schema, tname, val, rw))
                continue
            raise Violation(bad[0], common.case_payload(schema, tname, val, bad[1]))


def worker(widx, seed, tier, stats):
    n = {'quick': 12, 'thorough': 250}[tier]
    opts = gen.GenOpts(avoid=common.avoid_set(ID), max_decls=8, big_sizes=False, allow_unset=False, alias_focus=3, block_focus=4, oddunion_focus=3,
                       aligned_greedy=False)
    runner.run_given(gen.schema_with_values(opts, values_per_type=3), body, seed, n, stats,
                     shrink=(tier == 'thorough'))
    if opts.avoid and widx < 4:
        o = gen.GenOpts(max_decls=8, big_sizes=False, allow_unset=False, aligned_greedy=False)
        runner.run_given(gen.schema_with_values(o, values_per_type=3), body, seed + 1, 4, stats, shrink=False)


def run(tier, seed):
    t0 = time.time()
    stats = runner.run_workers(__name__, 'worker', seed, tier)
    common.run_regress(ID, stats, check_case)
    return runner.finish(ID, tier, seed, LEVEL, RULE, stats, t0, ASSUME)


def replay(payload):
    schema, tname, val = common.case_from_payload(payload)
    bad = check_case(schema, tname, val)
    if bad:
        print("VIOLATION property=%s replay=(given)\n  %s\n  %s" % (ID, bad[0], ir.dumps(bad[1])))
        return 1
    print("replay: property holds on this case")
    return 0
