"""C16 - multi-file schemas with includes equal their single-file concatenation.

generator : a generated schema, a partition of its declarations into 2-5 files respecting dependency order (each
            file #includes directly every file whose names it uses, so diamonds arise naturally), a directory
            arrangement (same dir | sub-directories found through -I | includes by relative path), an invocation
            style (all files on one command line in generated order | one invocation per file) and a working
            directory (root | elsewhere, with relative input paths).
oracle    : every generated module imports as a package; for every type constants, _SIZE, _ALIGNMENT, stiffness and
            the encodings of generated values equal those of the single-file build; each file's content is processed
            at most once per prophyc run; removing an included file, or adding a back-include that closes a cycle,
            makes prophyc fail with a diagnostic; (sampled) generated C++ sources pass g++ -fsyntax-only.
"""
import os
import shutil
import subprocess
import time

from hypothesis import strategies as st

from vlib import gen, ir, pyh, cpph, multifile, runner, common
from vlib.ir import Const, Enum, Struct, Union, Typedef
from vlib.refwire import RefWire
from vlib.runner import Violation

ID = 'C16'
LEVEL = 'exploration'
RULE = ("cases = (generated schema, partition into files, directory arrangement, invocation style, working "
        "directory); non-trivial = >= 3 files and (a file included by two different files, or a constant / "
        "enumerator of an included file used in an array size or discriminator of the including file); distinct = distinct hash of (file texts, arrangement, invocation)")
ASSUME = ["each file includes directly every file whose names it uses (the language does not re-export includes)",
          "values for the encoding comparison come from the shared value generator"]


class Counter(object):
    """Counts ModelParser calls per absolute path inside one prophyc.main run."""

    def __init__(self):
        self.calls = {}

    def __enter__(self):
        pyh.setup_repo()
        from prophyc import model
        self.model = model
        self.orig = model.ModelParser.__call__
        counter = self

        def wrapped(mp, *parse_args):
            path = os.path.abspath(parse_args[1])
            counter.calls[path] = counter.calls.get(path, 0) + 1
            return counter.orig(mp, *parse_args)
        model.ModelParser.__call__ = wrapped
        return self

    def __exit__(self, *a):
        self.model.ModelParser.__call__ = self.orig


def compile_layout(lay, root, out, style, order, cwd_mode, cpp=False):
    """-> list of per-run call counters.  Raises pyh.CompileFailed on a designed refusal."""
    paths = lay.write(root)
    os.makedirs(out, exist_ok=True)
    inc = []
    for d in lay.include_dirs(root):
        inc += ['-I', d]
    outs = ['--python_out', out] + (['--cpp_out', out, '--cpp_full_out', out] if cpp else [])
    old_cwd = os.getcwd()
    counters = []
    models = {}
    try:
        if cwd_mode == 'elsewhere':
            other = os.path.join(root, 'cwd_elsewhere')
            os.makedirs(other, exist_ok=True)
            os.chdir(other)
            conv = lambda p: os.path.relpath(p, other)
        elif cwd_mode == 'root':
            os.chdir(root)
            conv = lambda p: os.path.relpath(p, root)
        else:
            conv = lambda p: p
        inc = [conv(x) if x != '-I' else x for x in inc]
        outs = [conv(x) if not x.startswith('--') else x for x in outs]
        ordered = [paths[i] for i in order]
        runs = [ordered] if style == 'together' else [[p] for p in ordered]
        for files in runs:
            with Counter() as c:
                res = pyh.run_prophyc(inc + outs + [conv(p) for p in files])
            counters.append(c.calls)
            for p in files:
                stem = os.path.splitext(os.path.basename(p))[0]
                models[stem] = model_facts(res.get(stem, []))
    finally:
        os.chdir(old_cwd)
    return counters, models


def model_facts(nodes):
    """{composite name: wire facts prophyc computed for it} - taken right after the run that generated the file's
    outputs (later runs may re-evaluate shared nodes)"""
    out = {}
    for n in nodes:
        if hasattr(n, 'members') and hasattr(n, 'byte_size') and hasattr(n, 'alignment'):
            out[n.name] = (n.byte_size, n.alignment, getattr(n, 'kind', None),
                           [(m.name, getattr(m, 'numeric_size', None), m.byte_size, m.alignment,
                             getattr(m, 'padding', None)) for m in n.members])
    return out


def check_layout(lay, style, order, cwd_mode, vals, stats=None, cpp=False):
    """-> None | (what, details)"""
    root = pyh.fresh_dir('c16')
    det = dict(lay.describe(), style=style, order=list(order), cwd=cwd_mode)
    try:
        out = os.path.join(root, 'pvout_%s' % os.path.basename(root))
        try:
            counters, models = compile_layout(lay, root, out, style, order, cwd_mode, cpp)
        except pyh.CompileFailed as ex:
            return ("prophyc refused a valid multi-file schema: %s" % str(ex)[:400], det)
        except Exception as ex:
            return ("prophyc raised %s on a valid multi-file schema: %s" % (type(ex).__name__, str(ex)[:300]),
                    dict(det, exception=common.exc_info(ex)))
        for calls in counters:
            for path, n in calls.items():
                if n > 1:
                    return ("%s was processed %d times in one prophyc run" % (os.path.basename(path), n), det)
        for i in range(lay.nfiles):
            if not os.path.exists(os.path.join(out, lay.stem(i) + '.py')):
                return ("no Python output for input %s.prophy" % lay.stem(i), det)
        try:
            mods = multifile.import_package(out)
        except Exception as ex:
            return ("generated package does not import: %s: %s" % (type(ex).__name__, str(ex)[:300]), det)
        schema = lay.schema
        rw = RefWire(schema)
        single = pyh.PyCodec(schema)
        for d in schema.decls:
            ns = mods[lay.stem(lay.assignment[d.name])]
            if isinstance(d, Const):
                if ns.get(d.name) != single.ns[d.name] or ns.get(d.name) != d.value:
                    return ("constant %s is %r in the multi-file build, %r in the single-file build" % (
                        d.name, ns.get(d.name), single.ns[d.name]), det)
            elif isinstance(d, Enum):
                for n, v, _ in d.members:
                    if ns.get(n) != v:
                        return ("enumerator %s is %r in the multi-file build, expected %d" % (n, ns.get(n), v), det)
            elif isinstance(d, (Struct, Union)):
                a, b = ns[d.name], single.ns[d.name]
                sa = (a._SIZE, a._ALIGNMENT, a._DYNAMIC, a._UNLIMITED)
                sb = (b._SIZE, b._ALIGNMENT, b._DYNAMIC, b._UNLIMITED)
                if sa != sb:
                    return ("layout of %s differs: multi-file %r, single-file %r" % (d.name, sa, sb), det)
        # the layout prophyc computed (and hands to the C++ back-ends) is the single-file one
        single_facts = model_facts(single.nodes)
        for d in schema.composites():
            got = models.get(lay.stem(lay.assignment[d.name]), {}).get(d.name)
            if got != single_facts.get(d.name):
                return ("computed layout (size, alignment, stiffness, members' sizes / paddings) of %s differs: multi-file "
                        "%r, single-file %r" % (d.name, got, single_facts.get(d.name)), det)
        merged = {}
        for m in mods.values():
            merged.update(m)
        multi = pyh.PyCodec.__new__(pyh.PyCodec)
        multi.schema, multi.ns = schema, merged
        for tname, val in vals:
            for e in '<>':
                try:
                    x = multi.build(tname, val).encode(e)
                    y = single.build(tname, val).encode(e)
                except Exception as ex:
                    return ("encode through the multi-file build raised %s: %s" % (type(ex).__name__, ex), det)
                if x != y or x != rw.encode(tname, val, e)[0]:
                    return ("encoding of %s differs between multi-file and single-file build" % tname,
                            dict(det, multi=x.hex(), single=y.hex()))
        if cpp:
            for i in range(lay.nfiles):
                for ext in ('.ppf.cpp', '.pp.cpp'):
                    try:
                        cpph.compile_cxx([lay.stem(i) + ext], None, out, sanitize=False, syntax_only=True)
                    except cpph.BuildFailed as ex:
                        return ("generated %s%s does not compile: %s" % (lay.stem(i), ext, str(ex)[-300:]), det)
        # negative part: a missing include and a cyclic include must be reported
        bad = check_errors(lay, stats)
        if bad:
            return (bad[0], dict(det, **bad[1]))
        return None
    finally:
        shutil.rmtree(root, ignore_errors=True)


def check_errors(lay, stats=None):
    root = pyh.fresh_dir('c16e')
    try:
        out = os.path.join(root, 'o')
        os.makedirs(out)
        paths = lay.write(root)
        inc = []
        for d in lay.include_dirs(root):
            inc += ['-I', d]
        # (a) missing include: remove a file that another one includes
        victim = next((j for i in range(lay.nfiles) for j in lay.includes[i]), None)
        if victim is not None:
            user = next(i for i in range(lay.nfiles) if victim in lay.includes[i])
            os.remove(paths[victim])
            try:
                pyh.run_prophyc(inc + ['--python_out', out, paths[user]])
                return ("%s includes %s which does not exist, but prophyc succeeded" % (
                    lay.stem(user), lay.stem(victim)), {'missing': lay.stem(victim)})
            except pyh.CompileFailed as ex:
                if 'not found' not in str(ex) and lay.stem(victim) not in str(ex):
                    return ("diagnostic for a missing include does not name it: %s" % str(ex)[:200], {})
            except Exception as ex:
                return ("missing include made prophyc raise %s: %s" % (type(ex).__name__, str(ex)[:200]),
                        {'exception': common.exc_info(ex)})
            if stats is not None:
                stats.notes['missing_include_checked'] += 1
            with open(paths[victim], 'w') as f:
                f.write(lay.text(victim))
        # (b) cycle: a file that is (transitively) included by a later one includes that one back
        reach = {i: set(lay.includes[i]) for i in range(lay.nfiles)}
        changed = True
        while changed:
            changed = False
            for i in range(lay.nfiles):
                for j in list(reach[i]):
                    if not reach[j] <= reach[i]:
                        reach[i] |= reach[j]
                        changed = True
        pair = next(((i, j) for i in range(lay.nfiles) for j in reach[i]), None)
        if pair:
            top, low = pair
            with open(paths[low], 'w') as f:
                f.write(lay.text(low, extra_includes=[lay.include_text(low, top)]))
            try:
                pyh.run_prophyc(inc + ['--python_out', out, paths[top]])
                return ("cyclic include %s <-> %s was accepted" % (lay.stem(top), lay.stem(low)), {})
            except pyh.CompileFailed:
                pass
            except Exception as ex:
                return ("cyclic include made prophyc raise %s: %s" % (type(ex).__name__, str(ex)[:200]),
                        {'exception': common.exc_info(ex)})
            if stats is not None:
                stats.notes['cyclic_include_checked'] += 1
        return None
    finally:
        shutil.rmtree(root, ignore_errors=True)


@st.composite
def cases(draw, opts):
    lay = draw(multifile.layouts(opts, blank_focus=4))
    style = draw(st.sampled_from(['together', 'together', 'separate']))
    order = draw(st.permutations(list(range(lay.nfiles))))
    cwd_mode = draw(st.sampled_from(['keep', 'root', 'elsewhere']))
    rw = RefWire(lay.schema)
    vg = gen.ValueGen(draw, lay.schema, opts, rw)
    vals = []
    for c in lay.schema.composites()[-3:]:
        v = vg.value(c.name)
        vals.append((c.name, v))
    return lay, style, order, cwd_mode, vals


def make_body(cpp):
    def body(case, stats):
        lay, style, order, cwd_mode, vals = case
        bad = check_layout(lay, style, order, cwd_mode, vals, stats, cpp)
        texts = tuple(lay.text(i) for i in range(lay.nfiles))
        stats.case((texts, lay.arrangement, style, tuple(order), cwd_mode), lay.nontrivial(),
                   ('files=%d' % lay.nfiles, lay.arrangement, style, 'cwd=' + cwd_mode),
                   sample=lambda: dict(lay.describe(), style=style, order=list(order), cwd=cwd_mode))
        if bad:
            raise Violation(bad[0], {'details': bad[1]})
    return body


def gen_opts():
    return gen.GenOpts(min_decls=6, max_decls=12, const_exprs=True, const_ref_bias=2, big_sizes=False, allow_unset=False,
                       aligned_greedy=False, avoid=common.avoid_set(ID), intlike_bias=2)


def worker(widx, seed, tier, stats):
    n = {'quick': 80, 'thorough': 1000}[tier]
    runner.run_given(cases(gen_opts()), make_body(False), seed, n, stats)
    if not stats.violations:
        cpp_opts = gen_opts()
        cpp_opts.cpp_full_ok = True      # --cpp_full_out documents that it refuses several arrays per sizer
        runner.run_given(cases(cpp_opts), make_body(True), seed + 1, {'quick': 1, 'thorough': 20}[tier], stats,
                         shrink=False)


def regress(stats):
    """Saved multi-file inputs of defects found earlier: {files: {relative path: text}, inputs: [...], include_dirs:
    [...], single: concatenated text}; both builds must succeed and agree on every class's size facts."""
    import glob
    import json
    for path in sorted(glob.glob(os.path.join(runner.VERIF, 'regress', ID, '*.json'))):
        d = json.load(open(path))['case']['details']
        root = pyh.fresh_dir('c16r')
        try:
            for fn, text in list(d['files'].items()) + [('single_all.prophy', d['single'])]:
                os.makedirs(os.path.dirname(os.path.join(root, fn)), exist_ok=True)
                with open(os.path.join(root, fn), 'w') as f:
                    f.write(text)
            out = os.path.join(root, 'pvout_r')
            os.makedirs(out)
            inc = []
            for x in d.get('include_dirs', []):
                inc += ['-I', os.path.join(root, x)]
            stats.notes['regress_cases'] += 1
            try:
                pyh.run_prophyc(inc + ['--python_out', out] + [os.path.join(root, x) for x in d['inputs']])
                pyh.run_prophyc(['--python_out', out, os.path.join(root, 'single_all.prophy')])
                mods = multifile.import_package(out)
            except Exception as ex:
                stats.violations.append({'what': 'regression input %s: %s: %s' % (
                    os.path.basename(path), type(ex).__name__, str(ex)[:300]), 'case': {'details': d}})
                continue
            single = mods.pop('single_all')
            for m in mods.values():
                for k, v in m.items():
                    if hasattr(v, '_SIZE') and k in single and getattr(v, '__module__', '').endswith(tuple(mods)):
                        if (v._SIZE, v._ALIGNMENT) != (single[k]._SIZE, single[k]._ALIGNMENT):
                            stats.violations.append({'what': 'regression input %s: layout of %s differs' % (
                                os.path.basename(path), k), 'case': {'details': d}})
        finally:
            shutil.rmtree(root, ignore_errors=True)


def run(tier, seed):
    t0 = time.time()
    stats = runner.run_workers(__name__, 'worker', seed, tier)
    regress(stats)
    return runner.finish(ID, tier, seed, LEVEL, RULE, stats, t0, ASSUME)


def replay(payload):
    print(ir.dumps(payload['case']['details']))
    print("re-running with the recorded seed and tier (the run is a pure function of them):")
    return run(payload.get('tier', 'quick'), payload.get('seed', 1))
