"""C11 - copy_from yields an equal, fully independent message.

generator : schema x (a, b, c, d) four generated values of the same composite type (all optional states, limited /
            dynamic composite arrays of different lengths, every arm)
oracle    : after b.copy_from(a): snapshot(b) == a, encodings equal, a unchanged; then a is overwritten *in place*
            at every nesting depth with c -> b must still equal the old a; then b is overwritten with d -> a must
            still equal c.  Same for an element copied into a composite array by extend().
"""
import time

from hypothesis import strategies as st

from vlib import gen, ir, pyh, runner, common
from vlib.ir import Struct, Union, PLAIN, OPT, FIXARR, DYNARR, LIMARR, GREEDY, EXTARR, UNSET
from vlib.refwire import RefWire
from vlib.runner import Violation

ID = 'C11'
LEVEL = 'exploration'
RULE = ("cases = (generated schema, composite type, four generated values a b c d); copy_from, then deep in-place "
        "mutation of either side; also extend() of composite arrays; non-trivial = the type nests a composite "
        "(optional, array element, union arm or plain member); distinct = distinct hash of (schema text, type, a, b)")
ASSUME = ["values are compared through the public API snapshot and through encode()"]
NONTRIVIAL = {'nested_composite'}


def overwrite(msg, schema, tname, val):
    """Write `val` into `msg` reusing (mutating) every nested object that already exists."""
    t = schema.resolve(tname)
    if isinstance(t, Union):
        arm = next(a for a in t.arms if a.name == val[0])
        msg.discriminator = arm.disc
        if schema.is_composite(arm.type):
            overwrite(getattr(msg, arm.name), schema, arm.type, val[1])
        else:
            setattr(msg, arm.name, val[1])
        return
    sizers = t.sizers()
    for m in t.members:
        if m.name in sizers:
            continue
        v = val[m.name]
        comp = (not m.is_bytes) and schema.is_composite(m.type)
        if m.is_bytes:
            setattr(msg, m.name, v)
        elif m.kind == PLAIN:
            if comp:
                overwrite(getattr(msg, m.name), schema, m.type, v)
            else:
                setattr(msg, m.name, v)
        elif m.kind == OPT:
            if v is None:
                setattr(msg, m.name, None)
            elif comp:
                if getattr(msg, m.name) is None:
                    setattr(msg, m.name, True)
                overwrite(getattr(msg, m.name), schema, m.type, v)
            else:
                setattr(msg, m.name, v)
        elif not comp:
            getattr(msg, m.name)[:] = v
        else:
            arr = getattr(msg, m.name)
            for i, x in enumerate(v):
                if i < len(arr):
                    overwrite(arr[i], schema, m.type, x)
                else:
                    overwrite(arr.add(), schema, m.type, x)
            if m.kind != FIXARR:
                del arr[len(v):]


def check_case(schema, tname, val, codec=None, rw=None):
    """val = [a, b, c, d]"""
    rw = rw or RefWire(schema)
    codec = codec or pyh.PyCodec(schema)
    raw_a, raw_b = val[0], val[1]
    a, b, c, d = [rw.normalize(tname, x) for x in val]
    snap = lambda m: codec.snapshot(tname, m)

    def fail(what, **det):
        return (what, dict(det))
    try:
        # built from the *raw* values: fields the generator left unset stay untouched (defaults), which is a
        # different internal state from assigning the default explicitly
        A, B = codec.build(tname, raw_a), codec.build(tname, raw_b)
        # (the source is not read, encoded or printed before the copy: that would materialise its untouched fields)
        enc_a = rw.encode(tname, a, '<')[0]
    except Exception as ex:
        return ("building the messages raised %s: %s" % (type(ex).__name__, ex), {'exception': common.exc_info(ex)})
    try:
        B.copy_from(A)
    except Exception as ex:
        return ("copy_from raised %s: %s" % (type(ex).__name__, ex), {'exception': common.exc_info(ex)})
    try:
        if not pyh.values_equal(snap(B), a):
            return fail("after b.copy_from(a), b differs from a", b=ir.value_to_json(snap(B)), a=ir.value_to_json(a))
        if B.encode('<') != enc_a:
            return fail("after b.copy_from(a), b does not encode to a's canonical bytes", observed=B.encode('<').hex(),
                        expected=enc_a.hex())
        if not pyh.values_equal(snap(A), a):
            return fail("copy_from changed its source", source=ir.value_to_json(snap(A)), a=ir.value_to_json(a))
        for e in '<>':
            if B.encode(e) != A.encode(e):
                return fail("after copy_from the encodings differ", endianness=e)
        overwrite(A, schema, tname, c)
        if not pyh.values_equal(snap(A), c):
            return fail("harness: overwrite did not produce c")
        if not pyh.values_equal(snap(B), a):
            return fail("mutating the source after copy_from changed the copy", copy=ir.value_to_json(snap(B)),
                        expected=ir.value_to_json(a))
        if B.encode('<') != enc_a:
            return fail("mutating the source after copy_from changed the copy's encoding")
        overwrite(B, schema, tname, d)
        if not pyh.values_equal(snap(A), c):
            return fail("mutating the copy changed the source", source=ir.value_to_json(snap(A)),
                        expected=ir.value_to_json(c))
        # copy into itself / repeated copy is idempotent
        B.copy_from(A)
        B.copy_from(B)
        if not pyh.values_equal(snap(B), c) or B.encode('>') != A.encode('>'):
            return fail("second copy_from (into a message holding other data) does not yield an equal message",
                        copy=ir.value_to_json(snap(B)), expected=ir.value_to_json(c))
    except Exception as ex:
        return ("operation after copy_from raised %s: %s" % (type(ex).__name__, ex),
                {'exception': common.exc_info(ex)})
    # the value of a present optional field is a message of its type like any other: target and source of copy_from
    for holder in schema.structs():
        for m in holder.members:
            if m.kind != OPT or m.type not in schema.by_name or schema.resolve(m.type) is not schema.resolve(tname):
                continue
            try:
                H = codec.new(holder.name)
                setattr(H, m.name, True)
                sub = getattr(H, m.name)
                E = codec.build(tname, raw_a)
                sub.copy_from(E)
                if not pyh.values_equal(snap(sub), a):
                    return fail("copy_from into the value of an optional field does not yield an equal message",
                                holder=holder.name, field=m.name)
                overwrite(E, schema, tname, c)
                if not pyh.values_equal(snap(sub), a):
                    return fail("mutating the source changed the optional field's value it was copied into",
                                holder=holder.name, field=m.name)
                F = codec.new(tname)
                F.copy_from(sub)
                H2 = codec.new(holder.name)
                setattr(H2, m.name, True)
                getattr(H2, m.name).copy_from(sub)
                overwrite(sub, schema, tname, d)
                if not pyh.values_equal(snap(F), a) or not pyh.values_equal(snap(getattr(H2, m.name)), a):
                    return fail("copy_from out of the value of an optional field is not an equal independent message",
                                holder=holder.name, field=m.name)
            except Exception as ex:
                return ("copy_from between a message and the value of an optional field of its type raised %s: %s" % (
                    type(ex).__name__, ex), {'exception': common.exc_info(ex), 'holder': holder.name, 'field': m.name})
    # extend() of composite arrays copies its arguments
    for holder in schema.structs():
        for m in holder.members:
            if m.is_bytes or m.kind not in (DYNARR, LIMARR, GREEDY) or m.type not in schema.by_name:
                continue
            if schema.resolve(m.type) is not schema.resolve(tname):
                continue
            try:
                H = codec.new(holder.name)
                E = codec.build(tname, raw_a)
                getattr(H, m.name).extend([E])
                el = getattr(H, m.name)[0]
                if not pyh.values_equal(snap(el), a):
                    return fail("element copied by extend() differs from its source", holder=holder.name, field=m.name)
                overwrite(E, schema, tname, c)
                if not pyh.values_equal(snap(el), a):
                    return fail("mutating the argument of extend() changed the array element", holder=holder.name,
                                field=m.name)
                overwrite(el, schema, tname, d)
                if not pyh.values_equal(snap(E), c):
                    return fail("mutating the array element changed the argument of extend()", holder=holder.name,
                                field=m.name)
                # the array as its own argument: the element once more, as an independent copy
                if m.kind != LIMARR or m.size >= 2:
                    from props.c10 import with_watchdog
                    arr = getattr(H, m.name)
                    try:
                        with_watchdog(lambda: arr.extend(arr), 1)
                    except RuntimeError:
                        n = len(arr)
                        del arr[:]
                        return fail("a.extend(a) did not terminate within 1 s (array grew to %d elements)" % n,
                                    holder=holder.name, field=m.name)
                    if len(arr) != 2 or not pyh.values_equal(snap(arr[1]), d):
                        n = len(arr)
                        del arr[:]
                        return fail("a.extend(a) did not append one equal copy of the element (length %d)" % n,
                                    holder=holder.name, field=m.name)
                    overwrite(arr[1], schema, tname, a)
                    if not pyh.values_equal(snap(arr[0]), d):
                        return fail("mutating the element appended by a.extend(a) changed the original element",
                                    holder=holder.name, field=m.name)
            except Exception as ex:
                return ("extend() scenario raised %s: %s" % (type(ex).__name__, ex),
                        {'exception': common.exc_info(ex), 'holder': holder.name, 'field': m.name})
    return None


@st.composite
def cases(draw, opts):
    schema = draw(gen.schemas(opts))
    rw = RefWire(schema)
    vg = gen.ValueGen(draw, schema, opts, rw)
    comps = schema.composites()
    out = []
    for c in comps[-3:]:
        out.append((c.name, [vg.value(c.name) for _ in range(4)]))
    return schema, out


def body(case, stats):
    schema, items = case
    rw = RefWire(schema)
    text = schema.to_prophy()
    try:
        codec = pyh.PyCodec(schema, text)
    except Exception as ex:
        stats.notes['schema_not_usable(%s)' % type(ex).__name__] += 1
        return
    for tname, vals in items:
        feats = gen.schema_features(rw, tname)
        bad = check_case(schema, tname, vals, codec, rw)
        stats.case((text, tname, repr(vals[:2])), bool(feats & NONTRIVIAL), feats,
                   sample=lambda: {'schema': text, 'type': tname, 'a': ir.value_to_json(vals[0]),
                                   'b': ir.value_to_json(vals[1])})
        if bad:
            fid = common.classify_known(ID, schema, rw, tname, vals[0], bad)
            if fid:
                stats.known_finding(fid, {'schema': text, 'type': tname})
                continue
            raise Violation(bad[0], common.case_payload(schema, tname, vals, bad[1]))


def worker(widx, seed, tier, stats):
    n = {'quick': 200, 'thorough': 6000}[tier]
    avoid = common.avoid_set(ID)
    opts = gen.GenOpts(avoid=avoid, allow_unset=True, unset_bias=(3, 6), big_sizes=False, aligned_greedy=False,
                       long_fixed_bias=4)
    runner.run_given(cases(opts), body, seed, n, stats)


def run(tier, seed):
    t0 = time.time()
    stats = runner.run_workers(__name__, 'worker', seed, tier)
    common.run_regress(ID, stats, check_case)
    return runner.finish(ID, tier, seed, LEVEL, RULE, stats, t0, ASSUME)


def replay(payload):
    schema, tname, val = common.case_from_payload(payload)
    bad = check_case(schema, tname, val)
    if bad:
        print("VIOLATION property=%s replay=(given)\n  %s\n  %s" % (ID, bad[0], ir.dumps(bad[1])))
        return 1
    print("replay: property holds on this case")
    return 0
