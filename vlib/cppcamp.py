"""Campaign driver for C++-backed checks.

Hypothesis generates the cases (collect phase, deterministic in the seed); cases are grouped into
translation units so that one sanitizer compile is amortised over many layouts; a failing vector
is re-run alone and reduced by a small deterministic reducer on the IR (bounded recompiles)."""
import copy

import hypothesis
from hypothesis import given

from . import gen, ir, cpph, pyh, runner
from .ir import Struct, Union, Typedef, Enum, Const, Schema, Member, PLAIN, OPT, EXTARR, UNSET
from .refwire import RefWire


def collect_cases(strategy, seed, n):
    out = []

    @hypothesis.seed(seed)
    @runner.hyp_settings(n, shrink=False)
    @given(strategy)
    def t(case):
        out.append(case)

    t()
    return out[:n]


def reachable_decls(schema, tname):
    """Sub-schema with only what `tname` needs (declaration order kept)."""
    need = set()
    stack = [tname]
    while stack:
        n = stack.pop()
        if n in need or n in ir.NUMERIC or n == 'bytes':
            continue
        need.add(n)
        d = schema.by_name.get(n)
        if d is None:
            continue
        stack.extend(ir.decl_type_deps(d))
        exprs = []
        if isinstance(d, Struct):
            exprs = [m.size_expr for m in d.members if m.size_expr]
        elif isinstance(d, Union):
            exprs = [a.disc_expr for a in d.arms]
        elif isinstance(d, Enum):
            exprs = [m[2] for m in d.members]
        elif isinstance(d, Const):
            exprs = [d.expr]
        for e in exprs:
            for name in cpph._IDENT.findall(str(e)):
                owner = name
                if name not in schema.by_name:
                    # enumerator: find its enum
                    for dd in schema.decls:
                        if isinstance(dd, Enum) and any(m[0] == name for m in dd.members):
                            owner = dd.name
                stack.append(owner)
    return Schema([d for d in schema.decls if d.name in need])


def simplify_candidates(schema, tname, val):
    """Yield (schema', val') candidates, simplest first: pruned schema, default value, fewer members."""
    pruned = reachable_decls(schema, tname)
    if len(pruned.decls) < len(schema.decls):
        yield pruned, val
    rw = RefWire(schema)
    t = schema.resolve(tname)
    if val is not UNSET and val != {} :
        yield schema, (UNSET if not isinstance(t, Struct) else {})
    if isinstance(t, Struct) and len(t.members) > 1 and isinstance(val, dict):
        sizers = t.sizers()
        for i, m in enumerate(t.members):
            if m.name in sizers:
                continue
            members = [x for j, x in enumerate(t.members) if j != i]
            if m.kind == EXTARR and len(sizers[m.sizer]) == 1:
                members = [x for x in members if x.name != m.sizer]
            if not members:
                continue
            ns = Schema([Struct(d.name, members) if d.name == t.name else d for d in schema.decls])
            nv = {k: v for k, v in val.items() if k != m.name}
            try:
                RefWire(ns).layout(tname)
            except Exception:
                continue
            yield ns, nv
    if isinstance(val, dict):
        for k in list(val):
            v = val[k]
            if isinstance(v, (list, bytes)) and len(v) > 0:
                m = next(x for x in t.members if x.name == k)
                if m.kind in (ir.DYNARR, ir.GREEDY, ir.LIMARR) or (m.kind == ir.FIXARR and m.is_bytes):
                    nv = dict(val)
                    nv[k] = v[:len(v) // 2]
                    yield schema, nv


def reduce_case(schema, tname, val, still_fails, budget=14):
    """Greedy reducer: accept a candidate when it still fails.  `still_fails(schema, tname, val)` compiles."""
    improved = True
    while improved and budget > 0:
        improved = False
        for ns, nv in simplify_candidates(schema, tname, val):
            if budget <= 0:
                break
            budget -= 1
            try:
                if still_fails(ns, tname, nv):
                    schema, val = ns, nv
                    improved = True
                    break
            except Exception:
                continue
    return schema, val


# ------------------------------------------------------------------------------------------------
class FullCampaign(object):
    """Generic campaign over the C++ full codec.  Subclasses give:
         prop, nontrivial (set of feature names), gen_opts(), vectors(rw, py, tname, val) ->
         [(label, op, e, data, k)], judge(rw, tname, val, vec, res) -> None | (what, details)"""
    prop = None
    nontrivial = frozenset()
    group = 6
    values_per_type = 2
    sanitize = True
    extra_flags = ()

    def gen_opts(self):
        from . import common
        return gen.GenOpts(cpp_full_ok=True, avoid=common.avoid_set(self.prop), big_sizes=False, tail_focus=3, alias_focus=4, block_focus=6, tiny_focus=5, oddunion_focus=4, smallopt_focus=4)

    def vectors(self, rw, py, tname, val):
        raise NotImplementedError

    def judge(self, rw, tname, val, vec, res):
        raise NotImplementedError

    def features(self, rw, tname, val):
        return gen.schema_features(rw, tname) | gen.value_features(rw, tname, val)

    # ---- machinery
    def build(self, schema):
        return cpph.FullTU(schema, sanitize=self.sanitize, extra_flags=self.extra_flags)

    def run_vectors(self, tu, rw, items):
        cmds, meta = [], []
        for tname, val in items:
            for vec in self.vectors(rw, tu.py, tname, val):
                label, op, e, data, k = vec
                cmds.append('%s %s %s %s %d' % (op, tname, e, cpph.hexarg(data), k))
                meta.append((tname, val, vec))
        res = tu.run(cmds)
        return [m + (r,) for m, r in zip(meta, res)]

    def check_case(self, schema, tname, val):
        sub = reachable_decls(schema, tname)
        tu = self.build(sub)
        try:
            rw = RefWire(sub)
            for tn, v, vec, res in self.run_vectors(tu, rw, [(tname, val)]):
                self._py = tu.py
                bad = self.judge(rw, tn, v, vec, res)
                if bad:
                    return self._describe(bad, vec)
            return None
        finally:
            tu.cleanup()

    @staticmethod
    def _describe(bad, vec):
        label, op, e, data, k = vec
        return ("%s [%s, op=%s, byte order %s]" % (bad[0], label, op, e),
                dict(bad[1], input=data.hex(), endianness=e, op=op, k=k, vector=label))

    def process_chunk(self, chunk, stats):
        from . import common
        merged, vectors = cpph.merge_cases(chunk)
        try:
            tu = self.build(merged)
        except (cpph.BuildFailed, pyh.CompileFailed) as ex:
            stats.notes['tu_build_failed'] += 1
            if len(chunk) > 1:
                for c in chunk:
                    self.process_chunk([c], stats)
            else:
                stats.notes['schema_build_failed'] += 1
                stats.notes['build_failure: ' + str(ex)[:160].replace('\n', ' ')] += 1
                msg = cpph.compile_errors(ex) if isinstance(ex, cpph.BuildFailed) else ''
                if msg and not stats.violations:
                    # every C++ property presupposes that the generated codec compiles against the shipped headers
                    schema = chunk[0][0]
                    stats.violations.append({'what': "the generated C++ codec of an accepted schema does not compile: " + msg,
                                             'case': common.case_payload(schema, None, None, {'compiler': msg})})
            return
        try:
            rw = RefWire(merged)
            rows = self.run_vectors(tu, rw, [(tn, v) for _, tn, v in vectors])
            idx_of = {(tn, id(v)): ci for ci, tn, v in vectors}
            failed = set()
            cache = {}
            for tn, v, vec, res in rows:
                ci = idx_of[(tn, id(v))]
                schema = chunk[ci][0]
                otn = tn[len('P%d_' % ci):]
                if ci not in cache:
                    cache[ci] = (RefWire(schema), schema.to_prophy())
                orw, text = cache[ci]
                feats = self.features(orw, otn, v)
                label, op, e, data, k = vec
                stats.case((text, otn, repr(v), e, label, op, k, data), bool(feats & self.nontrivial), feats,
                           sample=lambda: dict(common.sample(schema, otn, v, orw), endianness=e, vector=label,
                                               op=op, input=data.hex()))
                self._py = tu.py
                bad = self.judge(rw, tn, v, vec, res)
                if bad and (ci, otn) not in failed:
                    failed.add((ci, otn))
                    desc = self._describe(bad, vec)
                    fid = common.classify_known(self.prop, schema, orw, otn, v, desc)
                    if fid:
                        stats.known_finding(fid, lambda: common.sample(schema, otn, v, orw))
                        continue
                    if len(stats.violations) >= 2:
                        continue
                    rs, rv = reduce_case(schema, otn, v, lambda s, t, x: self.check_case(s, t, x) is not None)
                    final = self.check_case(rs, otn, rv) or desc
                    stats.violations.append({'what': final[0], 'case': common.case_payload(rs, otn, rv, final[1])})
        finally:
            tu.cleanup()

    def worker(self, widx, seed, tier, stats, n_tus):
        strat = gen.schema_with_values(self.gen_opts(), values_per_type=self.values_per_type)
        cases = collect_cases(strat, seed, n_tus * self.group)
        for i in range(0, len(cases), self.group):
            self.process_chunk(cases[i:i + self.group], stats)
            if stats.violations:
                break

    def replay(self, payload):
        from . import common
        schema, tname, val = common.case_from_payload(payload)
        bad = self.check_case(schema, tname, val)
        if bad:
            print("VIOLATION property=%s replay=(given)\n  %s\n  %s" % (self.prop, bad[0], ir.dumps(bad[1])))
            return 1
        print("replay: property holds on this case")
        return 0
