"""Schema IR of the verification harness (independent of prophyc's model).

A Schema is an ordered list of declarations.  Everything is plain data so a
schema can be written to / read from a JSON replay file.
"""
import json
import struct as _struct

# name -> (size, struct code, is_float, min, max)
NUMERIC = {
    'u8': (1, 'B', False, 0, (1 << 8) - 1),
    'u16': (2, 'H', False, 0, (1 << 16) - 1),
    'u32': (4, 'I', False, 0, (1 << 32) - 1),
    'u64': (8, 'Q', False, 0, (1 << 64) - 1),
    'i8': (1, 'b', False, -(1 << 7), (1 << 7) - 1),
    'i16': (2, 'h', False, -(1 << 15), (1 << 15) - 1),
    'i32': (4, 'i', False, -(1 << 31), (1 << 31) - 1),
    'i64': (8, 'q', False, -(1 << 63), (1 << 63) - 1),
    'r32': (4, 'f', True, None, None),
    'r64': (8, 'd', True, None, None),
}
INTS = [n for n, v in NUMERIC.items() if not v[2]]
PROPHY_SPELLING = {'r32': 'float', 'r64': 'double'}
CPP_SPELLING = {'u8': 'uint8_t', 'u16': 'uint16_t', 'u32': 'uint32_t', 'u64': 'uint64_t',
                'i8': 'int8_t', 'i16': 'int16_t', 'i32': 'int32_t', 'i64': 'int64_t',
                'r32': 'float', 'r64': 'double'}
ISAR_PRIMITIVE = {"u8": "8 bit integer unsigned", "u16": "16 bit integer unsigned",
                  "u32": "32 bit integer unsigned", "u64": "64 bit integer unsigned",
                  "i8": "8 bit integer signed", "i16": "16 bit integer signed",
                  "i32": "32 bit integer signed", "i64": "64 bit integer signed",
                  "r32": "32 bit float", "r64": "64 bit float"}

FIXED, DYNAMIC, UNLIMITED = 0, 1, 2
KIND_NAMES = {FIXED: 'fixed', DYNAMIC: 'dynamic', UNLIMITED: 'unlimited'}

# member kinds
PLAIN, OPT, FIXARR, DYNARR, LIMARR, GREEDY, EXTARR = 'plain', 'opt', 'fixed', 'dyn', 'lim', 'greedy', 'ext'
ARRAY_KINDS = (FIXARR, DYNARR, LIMARR, GREEDY, EXTARR)


class Const(object):
    tag = 'const'

    def __init__(self, name, value, expr=None):
        self.name, self.value, self.expr = name, value, expr if expr is not None else str(value)

    def to_json(self):
        return {'k': 'const', 'name': self.name, 'value': self.value, 'expr': self.expr}


class Enum(object):
    tag = 'enum'

    def __init__(self, name, members):
        # members: list of [ename, value, expr]
        self.name = name
        self.members = [list(m) + ([str(m[1])] if len(m) == 2 else []) for m in members]

    def to_json(self):
        return {'k': 'enum', 'name': self.name, 'members': self.members}


class Typedef(object):
    tag = 'typedef'

    def __init__(self, name, target):
        self.name, self.target = name, target

    def to_json(self):
        return {'k': 'typedef', 'name': self.name, 'target': self.target}


class Member(object):
    def __init__(self, name, type, kind=PLAIN, size=None, sizer=None, size_expr=None):
        self.name, self.type, self.kind, self.size, self.sizer = name, type, kind, size, sizer
        self.size_expr = size_expr if size_expr is not None else (str(size) if size is not None else None)

    def to_json(self):
        return {'name': self.name, 'type': self.type, 'kind': self.kind, 'size': self.size,
                'sizer': self.sizer, 'size_expr': self.size_expr}

    @property
    def is_bytes(self):
        return self.type == 'bytes'


class Struct(object):
    tag = 'struct'

    def __init__(self, name, members):
        self.name, self.members = name, members

    def to_json(self):
        return {'k': 'struct', 'name': self.name, 'members': [m.to_json() for m in self.members]}

    def sizers(self):
        """names of members that size externally sized arrays -> list of array names"""
        out = {}
        for m in self.members:
            if m.kind == EXTARR:
                out.setdefault(m.sizer, []).append(m.name)
        return out


class Arm(object):
    def __init__(self, disc, type, name, disc_expr=None):
        self.disc, self.type, self.name = disc, type, name
        self.disc_expr = disc_expr if disc_expr is not None else str(disc)

    def to_json(self):
        return {'disc': self.disc, 'type': self.type, 'name': self.name, 'disc_expr': self.disc_expr}


class Union(object):
    tag = 'union'

    def __init__(self, name, arms):
        self.name, self.arms = name, arms

    def to_json(self):
        return {'k': 'union', 'name': self.name, 'arms': [a.to_json() for a in self.arms]}


class Schema(object):
    def __init__(self, decls):
        self.decls = list(decls)
        self.by_name = {d.name: d for d in self.decls}

    # ---- json
    def to_json(self):
        return [d.to_json() for d in self.decls]

    @staticmethod
    def from_json(js):
        decls = []
        for d in js:
            k = d['k']
            if k == 'const':
                decls.append(Const(d['name'], d['value'], d['expr']))
            elif k == 'enum':
                decls.append(Enum(d['name'], d['members']))
            elif k == 'typedef':
                decls.append(Typedef(d['name'], d['target']))
            elif k == 'struct':
                decls.append(Struct(d['name'], [Member(m['name'], m['type'], m['kind'], m['size'], m['sizer'],
                                                       m.get('size_expr')) for m in d['members']]))
            elif k == 'union':
                decls.append(Union(d['name'], [Arm(a['disc'], a['type'], a['name'], a.get('disc_expr'))
                                               for a in d['arms']]))
        return Schema(decls)

    # ---- lookups
    def resolve(self, tname):
        """Follow typedefs.  Returns a numeric type name (str), Enum, Struct or Union."""
        while True:
            if tname in NUMERIC:
                return tname
            d = self.by_name[tname]
            if isinstance(d, Typedef):
                tname = d.target
                continue
            return d

    def composites(self):
        return [d for d in self.decls if isinstance(d, (Struct, Union))]

    def structs(self):
        return [d for d in self.decls if isinstance(d, Struct)]

    def is_composite(self, tname):
        return isinstance(self.resolve(tname), (Struct, Union))

    # ---- renderers
    def to_prophy(self, decls=None, includes=()):
        out = []
        for inc in includes:
            out.append('#include "%s"\n' % inc)
        for d in (decls if decls is not None else self.decls):
            out.append(render_prophy_decl(d))
        return '\n'.join(out)


def prophy_type(t):
    return PROPHY_SPELLING.get(t, t)


def render_prophy_member(m):
    t = prophy_type(m.type)
    if m.kind == PLAIN:
        return '%s %s;' % (t, m.name)
    if m.kind == OPT:
        return '%s* %s;' % (t, m.name)
    if m.kind == FIXARR:
        return '%s %s[%s];' % (t, m.name, m.size_expr)
    if m.kind == DYNARR:
        return '%s %s<>;' % (t, m.name)
    if m.kind == LIMARR:
        return '%s %s<%s>;' % (t, m.name, m.size_expr)
    if m.kind == GREEDY:
        return '%s %s<...>;' % (t, m.name)
    if m.kind == EXTARR:
        return '%s %s<@%s>;' % (t, m.name, m.sizer)
    raise ValueError(m.kind)


def render_prophy_decl(d):
    if isinstance(d, Const):
        return 'const %s = %s;\n' % (d.name, d.expr)
    if isinstance(d, Enum):
        return 'enum %s\n{\n%s\n};\n' % (d.name, ',\n'.join('    %s = %s' % (n, e) for n, v, e in d.members))
    if isinstance(d, Typedef):
        return 'typedef %s %s;\n' % (prophy_type(d.target), d.name)
    if isinstance(d, Struct):
        return 'struct %s\n{\n%s\n};\n' % (d.name, '\n'.join('    ' + render_prophy_member(m) for m in d.members))
    if isinstance(d, Union):
        return 'union %s\n{\n%s\n};\n' % (d.name, '\n'.join(
            '    %s: %s %s;' % (a.disc_expr, prophy_type(a.type), a.name) for a in d.arms))
    raise ValueError(d)


def decl_type_deps(d):
    """Names of user types a declaration refers to (not constants)."""
    if isinstance(d, Typedef):
        return [d.target] if d.target not in NUMERIC else []
    if isinstance(d, Struct):
        return [m.type for m in d.members if m.type not in NUMERIC and m.type != 'bytes']
    if isinstance(d, Union):
        return [a.type for a in d.arms if a.type not in NUMERIC]
    return []


# ---------------------------------------------------------------- values <-> json
class _Unset(object):
    def __repr__(self):
        return 'UNSET'


UNSET = _Unset()


def value_to_json(v):
    if v is UNSET:
        return {'$unset': 1}
    if isinstance(v, bool):
        return {'$bool': v}
    if isinstance(v, bytes):
        return {'$b': v.hex()}
    if isinstance(v, float):
        return {'$f': _struct.pack('>d', v).hex()}
    if isinstance(v, tuple):
        return {'$u': v[0], 'v': value_to_json(v[1])}
    if isinstance(v, list):
        return [value_to_json(x) for x in v]
    if isinstance(v, dict):
        return {k: value_to_json(x) for k, x in v.items()}
    return v


def value_from_json(j):
    if isinstance(j, dict):
        if '$unset' in j:
            return UNSET
        if '$bool' in j:
            return j['$bool']
        if '$b' in j:
            return bytes.fromhex(j['$b'])
        if '$f' in j:
            return _struct.unpack('>d', bytes.fromhex(j['$f']))[0]
        if '$u' in j:
            return (j['$u'], value_from_json(j['v']))
        return {k: value_from_json(x) for k, x in j.items()}
    if isinstance(j, list):
        return [value_from_json(x) for x in j]
    return j


def dumps(obj):
    return json.dumps(obj, indent=1, sort_keys=True)


# ---------------------------------------------------------------------------------------------- isar
def _xml(s):
    return str(s).replace('&', '&amp;').replace('<', '&lt;').replace('>', '&gt;').replace('"', '&quot;')


def render_isar_member(m, counter_name=None):
    """One <member> element (struct context).  Dynamic / limited arrays use the isVariableSize form with the
    same counter name the prophy parser would synthesise (num_of_<name>)."""
    attrs = 'name="%s" type="%s"' % (m.name, 'byte' if m.is_bytes else m.type)
    if m.kind == PLAIN:
        return '<member %s/>' % attrs
    if m.kind == OPT:
        return '<member %s optional="true"/>' % attrs
    if m.kind == FIXARR:
        return '<member %s><dimension size="%s"/></member>' % (attrs, _xml(isar_size(m)))
    if m.kind == EXTARR:
        return '<member %s><dimension variableSizeFieldName="@%s"/></member>' % (attrs, m.sizer)
    cname = counter_name or ('num_of_' + m.name)
    if m.kind == DYNARR:
        return ('<member %s><dimension isVariableSize="true" variableSizeFieldName="%s"/></member>' % (attrs, cname))
    if m.kind == LIMARR:
        return ('<member %s><dimension size="%s" isVariableSize="true" variableSizeFieldName="%s"/></member>'
                % (attrs, _xml(isar_size(m)), cname))
    raise ValueError("isar cannot express member kind %s" % m.kind)


def isar_size(m):
    """Array extent as written on the isar side: expressions with shifts or divisions (which isar documents only as
    functions, or not at all) are given as the number they denote - the same type, described differently."""
    e = m.size_expr
    return str(m.size) if any(op in e for op in ('<<', '>>', '/')) else e


def render_isar_decl(d, expr_render=None):
    rx = expr_render or (lambda e: e)
    if isinstance(d, Const):
        return '<constant name="%s" value="%s"/>' % (d.name, _xml(rx(d.expr)))
    if isinstance(d, Enum):
        return '<enum name="%s">%s</enum>' % (d.name, ''.join(
            '<enum-member name="%s" value="%s"/>' % (n, _xml(rx(e))) for n, v, e in d.members))
    if isinstance(d, Typedef):
        if d.target in NUMERIC:
            return '<typedef name="%s" primitiveType="%s"/>' % (d.name, ISAR_PRIMITIVE[d.target])
        return '<typedef name="%s" type="%s"/>' % (d.name, d.target)
    if isinstance(d, Struct):
        return '<struct name="%s">%s</struct>' % (d.name, ''.join(render_isar_member(m) for m in d.members))
    if isinstance(d, Union):
        return '<union name="%s">%s</union>' % (d.name, ''.join(
            '<member name="%s" type="%s" discriminatorValue="%s"/>' % (a.name, a.type, _xml(rx(a.disc_expr)))
            for a in d.arms))
    raise ValueError(d)


def to_isar(decls, includes=()):
    out = ['<?xml version="1.0" encoding="utf-8"?>', '<definitions>']
    for inc in includes:
        out.append('<xi:include xmlns:xi="http://www.w3.org/2001/XInclude" href="%s"/>' % inc)
    for d in decls:
        out.append(render_isar_decl(d))
    out.append('</definitions>')
    return '\n'.join(out) + '\n'


def isar_expressible(schema):
    """greedy members cannot be said in isar XML (they need a patch)."""
    for d in schema.decls:
        if isinstance(d, Struct):
            if any(m.kind == GREEDY for m in d.members):
                return False
        if isinstance(d, Enum) and len(set(m[1] for m in d.members)) != len(d.members):
            return False        # isar refuses enumerators that repeat a value
    return True
