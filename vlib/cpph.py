"""C++ harness: generate drivers from the IR (not from prophyc's model), compile the generated
codecs of the working tree against its prophy_cpp/include with ASan+UBSan, run vectors."""
import os
import re
import shutil
import subprocess

from . import ir, pyh
from .ir import (NUMERIC, Const, Enum, Typedef, Struct, Union, Member, Arm, Schema,
                 PLAIN, OPT, FIXARR, DYNARR, LIMARR, GREEDY, EXTARR)

CXX = os.environ.get('VERIF_CXX', 'g++')
SAN_FLAGS = ['-fsanitize=address,undefined', '-fno-sanitize-recover=undefined', '-fno-sanitize=enum']
# no -w: g++ treats it as -Wno-narrowing too, which hides ill-formed narrowing conversions a user's build reports
BASE_FLAGS = ['-std=c++11', '-O0', '-g1', '-fno-omit-frame-pointer']
RUN_ENV = {
    'ASAN_OPTIONS': 'max_allocation_size_mb=64:allocator_may_return_null=0:detect_leaks=0:abort_on_error=0:'
                    'print_summary=1:symbolize=1',
    'UBSAN_OPTIONS': 'print_stacktrace=0:halt_on_error=1:print_summary=1',
}


def include_dir():
    return os.path.join(os.path.abspath(pyh.REPO), 'prophy_cpp', 'include')


# --------------------------------------------------------------------------------- schema merging
_IDENT = re.compile(r'[A-Za-z_]\w*')


def rename_schema(schema, prefix):
    """Prefix every global name (types, constants, enumerators)."""
    mapping = {}
    for d in schema.decls:
        mapping[d.name] = prefix + d.name
        if isinstance(d, Enum):
            for m in d.members:
                mapping[m[0]] = prefix + m[0]

    def rn(name):
        return mapping.get(name, name)

    def rx(expr):
        return None if expr is None else _IDENT.sub(lambda m: mapping.get(m.group(), m.group()), expr)

    out = []
    for d in schema.decls:
        if isinstance(d, Const):
            out.append(Const(rn(d.name), d.value, rx(d.expr)))
        elif isinstance(d, Enum):
            out.append(Enum(rn(d.name), [[rn(n), v, rx(e)] for n, v, e in d.members]))
        elif isinstance(d, Typedef):
            out.append(Typedef(rn(d.name), rn(d.target)))
        elif isinstance(d, Struct):
            out.append(Struct(rn(d.name), [Member(m.name, rn(m.type), m.kind, m.size, m.sizer, rx(m.size_expr))
                                           for m in d.members]))
        elif isinstance(d, Union):
            out.append(Union(rn(d.name), [Arm(a.disc, rn(a.type), a.name, rx(a.disc_expr)) for a in d.arms]))
    return Schema(out), mapping


def merge_cases(cases):
    """cases: list of (schema, [(tname, val), ...]) -> merged schema, [(case_index, tname, val)]"""
    decls = []
    vectors = []
    for i, (schema, vals) in enumerate(cases):
        prefix = 'P%d_' % i
        rs, mapping = rename_schema(schema, prefix)
        decls.extend(rs.decls)
        for tname, val in vals:
            vectors.append((i, mapping[tname], val))
    return Schema(decls), vectors


# --------------------------------------------------------------------------------- full codec driver
FULL_DRIVER_HEAD = r'''
#include "m.ppf.hpp"
#include <cstdio>
#include <cstdlib>
#include <cstring>
#include <iostream>
#include <string>
#include <vector>
using namespace prophy::generated;

static std::string hex(const uint8_t* p, size_t n) {
    static const char* d = "0123456789abcdef";
    std::string s; s.reserve(2 * n);
    for (size_t i = 0; i < n; ++i) { s += d[p[i] >> 4]; s += d[p[i] & 15]; }
    return s.empty() ? std::string("-") : s;
}
static std::string hexs(const std::string& t) { return hex(reinterpret_cast<const uint8_t*>(t.data()), t.size()); }
static std::vector<uint8_t> unhex(const std::string& s) {
    std::vector<uint8_t> v;
    if (s == "-") return v;
    for (size_t i = 0; i + 1 < s.size(); i += 2) v.push_back(uint8_t(strtoul(s.substr(i, 2).c_str(), 0, 16)));
    return v;
}
template <class T> static void observe(const T& x) {
    size_t gbs = x.get_byte_size();
    std::cout << " gbs=" << gbs << " ebs=" << int(T::encoded_byte_size);
    std::vector<uint8_t> l = x.template encode<prophy::little>();
    std::vector<uint8_t> b = x.template encode<prophy::big>();
    std::vector<uint8_t> n = x.encode();
    std::cout << " encL=" << hex(l.data(), l.size()) << " encB=" << hex(b.data(), b.size())
              << " encN=" << hex(n.data(), n.size());
    {   // pointer based encode into an exact-size heap block (red zones on both sides)
        uint8_t* buf = new uint8_t[gbs];
        memset(buf, 0, gbs);
        size_t wl = x.template encode<prophy::little>(buf);
        std::cout << " ptrL=" << wl << " ptrLhex=" << hex(buf, gbs);
        memset(buf, 0, gbs);
        size_t wb = x.template encode<prophy::big>(buf);
        std::cout << " ptrB=" << wb;
        memset(buf, 0, gbs);
        size_t wn = x.encode(buf);
        std::cout << " ptrN=" << wn;
        delete[] buf;
    }
    std::cout << " print=" << hexs(x.print());
}
template <class T> static void run(const std::string& op, char e, const std::vector<uint8_t>& in, size_t k,
                                   void (*over)(T&, size_t)) {
    // input lives in an exact-size heap block so that any read past data+size hits a red zone
    uint8_t* data = new uint8_t[in.size()];
    if (!in.empty()) memcpy(data, in.data(), in.size());
    T x;
    bool ok = (e == '<') ? x.template decode<prophy::little>(data, in.size())
            : (e == '>') ? x.template decode<prophy::big>(data, in.size())
                         : x.decode(data, in.size());
    // the same input decoded into an object that earlier commands of this process already decoded into
    // (accepted or refused half-way): decode has to overwrite whatever the object held
    static T reused;
    bool rok = (e == '<') ? reused.template decode<prophy::little>(data, in.size())
             : (e == '>') ? reused.template decode<prophy::big>(data, in.size())
                          : reused.decode(data, in.size());
    delete[] data;
    std::cout << "R ok=" << int(ok) << " rok=" << int(rok);
    if (rok) {
        std::vector<uint8_t> rl = reused.template encode<prophy::little>();
        std::cout << " rgbs=" << reused.get_byte_size() << " rencL=" << hex(rl.data(), rl.size());
    }
    if (ok) {
        if (op == "over") over(x, k);
        observe(x);
    }
    std::cout << std::endl;
}
template <class T> static void run_default(void (*over)(T&, size_t), size_t k) {
    T x;
    if (k) over(x, k);
    std::cout << "R ok=1";
    observe(x);
    std::cout << std::endl;
}
'''


def _cpp_type(schema, t):
    return ir.CPP_SPELLING.get(t, t)


def gen_over_helpers(schema):
    out = []
    comps = schema.composites()
    for c in comps:
        out.append('static void over(%s& x, size_t k);' % c.name)
    for c in comps:
        body = []
        if isinstance(c, Union):
            body.append('switch (x.discriminator) {')
            for a in c.arms:
                if schema.is_composite(a.type):
                    body.append('case %s::discriminator_%s: over(x.%s, k); break;' % (c.name, a.name, a.name))
            body.append('default: break; }')
        else:
            for m in c.members:
                comp = (not m.is_bytes) and schema.is_composite(m.type)
                if m.kind == LIMARR:
                    body.append('x.%s.resize(size_t(%d) + k);' % (m.name, m.size))
                if not comp:
                    continue
                if m.kind == PLAIN:
                    body.append('over(x.%s, k);' % m.name)
                elif m.kind == OPT:
                    body.append('if (x.%s) over(*x.%s, k);' % (m.name, m.name))
                else:
                    body.append('for (size_t i = 0; i < x.%s.size(); ++i) over(x.%s[i], k);' % (m.name, m.name))
        out.append('static void over(%s& x, size_t k) { (void)x; (void)k;\n    %s\n}' % (c.name, '\n    '.join(body)))
    return '\n'.join(out)


def gen_full_driver(schema):
    comps = schema.composites()
    src = [FULL_DRIVER_HEAD, gen_over_helpers(schema)]
    src.append('static void consts() {')
    for c in comps:
        src.append('    std::cout << "C %s ebs=" << int(%s::encoded_byte_size) << std::endl;' % (c.name, c.name))
    for d in schema.decls:
        if isinstance(d, Const):
            src.append('    std::cout << "K %s=" << (long long)(%s) << std::endl;' % (d.name, d.name))
        elif isinstance(d, Enum):
            for n, v, e in d.members:
                src.append('    std::cout << "K %s=" << (long long)(unsigned)(%s) << std::endl;' % (n, n))
    src.append('}')
    src.append('int main() {\n    std::string line;\n    while (std::getline(std::cin, line)) {')
    src.append('        if (line == "consts") { consts(); std::cout << "R done" << std::endl; continue; }')
    src.append('        char op[16], ty[128], e; static char hx[1 << 20]; unsigned long k = 0;')
    src.append('        if (sscanf(line.c_str(), "%15s %127s %c %1048575s %lu", op, ty, &e, hx, &k) < 4) '
               '{ std::cout << "R bad-command" << std::endl; continue; }')
    src.append('        std::string sop(op), sty(ty); std::vector<uint8_t> in = unhex(hx);')
    for c in comps:
        src.append('        if (sty == "%s") { if (sop == "def") run_default<%s>(over, k); else run<%s>(sop, e, in, k, over); continue; }'
                   % (c.name, c.name, c.name))
    src.append('        std::cout << "R unknown-type" << std::endl;')
    src.append('    }\n    return 0;\n}')
    return '\n'.join(src)


class BuildFailed(Exception):
    def __init__(self, stage, log):
        Exception.__init__(self, '%s failed: %s' % (stage, log[-3000:]))
        self.stage, self.log = stage, log


def compile_errors(ex):
    """The compiler's own error lines of a BuildFailed, or '' when the build died for another reason (killed, out of
    memory) - only the former says something about the generated code."""
    return ' | '.join([l for l in ex.log.splitlines() if ' error' in l or 'error:' in l][:2])[:300]


def compile_cxx(sources, exe, cwd, sanitize=True, extra=(), syntax_only=False, timeout=600):
    cmd = [CXX] + BASE_FLAGS + (SAN_FLAGS if sanitize else []) + ['-I', include_dir(), '-I', cwd] + list(extra)
    if syntax_only:
        cmd += ['-fsyntax-only'] + list(sources)
    else:
        cmd += list(sources) + ['-o', exe]
    p = subprocess.run(cmd, cwd=cwd, stdout=subprocess.PIPE, stderr=subprocess.STDOUT, timeout=timeout)
    if p.returncode != 0:
        raise BuildFailed('c++ compile', p.stdout.decode(errors='replace'))


def parse_result(line):
    out = {}
    for tok in line.split()[1:]:
        if '=' in tok:
            k, v = tok.split('=', 1)
            out[k] = v
        else:
            out[tok] = True
    for k in ('encL', 'encB', 'encN', 'ptrLhex', 'print', 'rencL'):
        if k in out:
            out[k] = b'' if out[k] == '-' else bytes.fromhex(out[k])
    for k in ('ok', 'gbs', 'ebs', 'ptrL', 'ptrB', 'ptrN', 'rok', 'rgbs'):
        if k in out:
            out[k] = int(out[k])
    return out


def crash_summary(stderr):
    """One-line bucket key of a sanitizer / abort report."""
    text = stderr.decode(errors='replace') if isinstance(stderr, bytes) else stderr
    kind = None
    for line in text.splitlines():
        if 'SUMMARY:' in line:
            kind = line.strip()
            break
    if kind is None:
        for line in text.splitlines():
            if 'runtime error:' in line or 'terminate called' in line or 'what():' in line or 'ERROR:' in line:
                kind = line.strip()
                break
    frames = [l.strip() for l in text.splitlines() if l.strip().startswith('#') and 'prophy' in l][:2]
    return (kind or text.strip()[:200] or 'died without a report') + (' @ ' + ' | '.join(frames) if frames else '')


def run_driver(exe, commands, timeout=600, env_extra=None):
    """Feed command lines; returns list (one per command) of result dict or {'crash': summary, 'stderr': text}."""
    results = []
    todo = list(commands)
    env = dict(os.environ)
    env.update(RUN_ENV)
    if env_extra:
        env.update(env_extra)
    while todo:
        inp = ('\n'.join(todo) + '\n').encode()
        try:
            p = subprocess.run([exe], input=inp, stdout=subprocess.PIPE, stderr=subprocess.PIPE, timeout=timeout,
                               env=env)
            out, err, rc, timed_out = p.stdout, p.stderr, p.returncode, False
        except subprocess.TimeoutExpired as t:
            out, err, rc, timed_out = t.stdout or b'', t.stderr or b'', -9, True
        lines = [l for l in out.decode(errors='replace').splitlines() if l.startswith('R ')]
        lines = lines[:len(todo)]
        for l in lines:
            results.append(parse_result(l))
        done = len(lines)
        if done >= len(todo):
            break
        # the process died (or hung) while handling todo[done]
        if timed_out:
            # a batch that ran out of time is inconclusive (loaded machine); only a vector that also hangs when
            # run alone, with a generous limit, counts
            try:
                p1 = subprocess.run([exe], input=(todo[done] + '\n').encode(), stdout=subprocess.PIPE,
                                    stderr=subprocess.PIPE, timeout=180, env=env)
                alone = [l for l in p1.stdout.decode(errors='replace').splitlines() if l.startswith('R ')]
                if alone:
                    results.append(parse_result(alone[0]))
                else:
                    results.append({'crash': crash_summary(p1.stderr), 'stderr': p1.stderr.decode(errors='replace')[-4000:],
                                    'rc': p1.returncode})
            except subprocess.TimeoutExpired:
                results.append({'crash': 'no answer within 180 s (run alone)', 'stderr': '', 'rc': -9})
            todo = todo[done + 1:]
            continue
        why = crash_summary(err)
        results.append({'crash': why, 'stderr': err.decode(errors='replace')[-4000:], 'rc': rc})
        todo = todo[done + 1:]
    return results


class FullTU(object):
    """One translation unit: schema -> prophyc --cpp_full_out (+ --python_out) -> driver -> executable."""

    def __init__(self, schema, workdir=None, sanitize=True, python=True, extra_flags=()):
        self.schema = schema
        self.dir = workdir or pyh.fresh_dir('tu')
        self.text = schema.to_prophy()
        src = os.path.join(self.dir, 'm.prophy')
        with open(src, 'w') as f:
            f.write(self.text)
        args = [src, '--cpp_full_out', self.dir]
        if python:
            args += ['--python_out', self.dir]
        self.nodes = pyh.run_prophyc(args)['m']
        self.py = None
        if python:
            with open(os.path.join(self.dir, 'm.py')) as f:
                self.py = pyh.PyCodec.__new__(pyh.PyCodec)
                self.py.schema, self.py.text, self.py.nodes = schema, self.text, self.nodes
                self.py.py_text = f.read()
                self.py.ns = pyh.load_module_text(self.py.py_text, os.path.join(self.dir, 'm.py'))
        with open(os.path.join(self.dir, 'driver.cpp'), 'w') as f:
            f.write(gen_full_driver(schema))
        self.exe = os.path.join(self.dir, 'drv')
        compile_cxx(['driver.cpp', 'm.ppf.cpp'], self.exe, self.dir, sanitize=sanitize, extra=extra_flags)

    def run(self, commands, timeout=600):
        return run_driver(self.exe, commands, timeout)

    def cleanup(self):
        shutil.rmtree(self.dir, ignore_errors=True)


def hexarg(data):
    return data.hex() if data else '-'


# --------------------------------------------------------------------------------- raw codec driver
RAW_DRIVER_HEAD = r'''
#include "m.pp.hpp"
#include <cstddef>
#include <cstdio>
#include <cstdlib>
#include <cstring>
#include <iostream>
#include <string>
#include <vector>

static std::string hex(const uint8_t* p, size_t n) {
    static const char* d = "0123456789abcdef";
    std::string s; s.reserve(2 * n);
    for (size_t i = 0; i < n; ++i) { s += d[p[i] >> 4]; s += d[p[i] & 15]; }
    return s.empty() ? std::string("-") : s;
}
static std::vector<uint8_t> unhex(const std::string& s) {
    std::vector<uint8_t> v;
    if (s == "-") return v;
    for (size_t i = 0; i + 1 < s.size(); i += 2) v.push_back(uint8_t(strtoul(s.substr(i, 2).c_str(), 0, 16)));
    return v;
}
template <class T> static void do_swap(const std::vector<uint8_t>& in) {
    // 8-aligned exact-size heap block: ASan red zones on both sides act as canaries
    void* mem = 0;
    if (posix_memalign(&mem, 8, in.size() ? in.size() : 1)) { std::cout << "R nomem" << std::endl; return; }
    uint8_t* buf = static_cast<uint8_t*>(mem);
    if (!in.empty()) memcpy(buf, in.data(), in.size());
    T* end = prophy::swap(reinterpret_cast<T*>(buf));
    long off = reinterpret_cast<uint8_t*>(end) - buf;
    std::cout << "R ok=1 end=" << off << " buf=" << hex(buf, in.size()) << std::endl;
    free(mem);
}
'''


def raw_layout_facts(schema, rw):
    """-> list of (label, c++ expression, expected value) for every struct, part and union."""
    facts = []
    for c in schema.composites():
        size, align, stiff = rw.layout(c.name)
        facts.append(('%s:alignof' % c.name, '__alignof__(%s)' % c.name, align))
        if isinstance(c, Union):
            facts.append(('%s:sizeof' % c.name, 'sizeof(%s)' % c.name, size))
            facts.append(('%s.discriminator' % c.name, 'offsetof(%s, discriminator)' % c.name, 0))
            for a in c.arms:
                facts.append(('%s.%s' % (c.name, a.name), 'offsetof(%s, %s)' % (c.name, a.name), align))
            continue
        if stiff == ir.FIXED:
            facts.append(('%s:sizeof' % c.name, 'sizeof(%s)' % c.name, size))
        fields = rw.static_offsets(c)
        nblocks = max(b for _, b, _ in fields) + 1 if fields else 1
        # a trailing dynamic field opens no further part
        for f, block, off in fields:
            m = f.member
            holder = c.name if block == 0 else '%s::part%d' % (c.name, block + 1)
            if f.role == 'value':
                facts.append(('%s.%s' % (holder, m.name), 'offsetof(%s, %s)' % (holder, m.name), off))
            elif f.role == 'opt':
                facts.append(('%s.has_%s' % (holder, m.name), 'offsetof(%s, has_%s)' % (holder, m.name), off))
                facts.append(('%s.%s' % (holder, m.name), 'offsetof(%s, %s)' % (holder, m.name), off + f.align))
            elif f.role == 'counter':
                facts.append(('%s.num_of_%s' % (holder, m.name), 'offsetof(%s, num_of_%s)' % (holder, m.name), off))
            elif f.role == 'elems':
                facts.append(('%s.%s[0]' % (holder, m.name), 'offsetof(%s, %s)' % (holder, m.name), off))
        for b in range(1, nblocks):
            first = next(f for f, blk, _ in fields if blk == b)
            facts.append(('%s::part%d:alignof' % (c.name, b + 1), '__alignof__(%s::part%d)' % (c.name, b + 1),
                          first.block_align))
            facts.append(('%s._%d' % (c.name, b + 1), 'sizeof(((%s*)0)->_%d) > 0' % (c.name, b + 1), 1))
    return facts


def gen_raw_driver(schema, rw):
    facts = raw_layout_facts(schema, rw)
    src = [RAW_DRIVER_HEAD, 'static void layout() {']
    for i, (label, expr, want) in enumerate(facts):
        src.append('    std::cout << "L %d " << (long)(%s) << std::endl;' % (i, expr))
    src.append('}')
    src.append('int main() {\n    std::string line;\n    while (std::getline(std::cin, line)) {')
    src.append('        if (line == "layout") { layout(); std::cout << "R done" << std::endl; continue; }')
    src.append('        char op[16], ty[128]; static char hx[1 << 20];')
    src.append('        if (sscanf(line.c_str(), "%15s %127s %1048575s", op, ty, hx) < 3) '
               '{ std::cout << "R bad-command" << std::endl; continue; }')
    src.append('        std::string sty(ty); std::vector<uint8_t> in = unhex(hx);')
    for c in schema.composites():
        src.append('        if (sty == "%s") { do_swap<%s>(in); continue; }' % (c.name, c.name))
    src.append('        std::cout << "R unknown-type" << std::endl;')
    src.append('    }\n    return 0;\n}')
    return '\n'.join(src), facts


class RawTU(object):
    """schema -> prophyc --cpp_out -> layout/swap driver -> executable."""

    def __init__(self, schema, workdir=None, sanitize=True, layout=None, isar=False):
        """layout: a multifile.Layout of the same schema - the definitions are then spread over several files that
        include each other, all compiled in one prophyc run, and the driver includes every generated header."""
        from .refwire import RefWire
        self.schema = schema
        self.dir = workdir or pyh.fresh_dir('raw')
        self.text = schema.to_prophy()
        self.rw = RefWire(schema)
        drv, self.facts = gen_raw_driver(schema, self.rw)
        if isar:
            # the same schema described in isar XML (extents and constants are handed on as expression text)
            src = os.path.join(self.dir, 'm.xml')
            self.text = ir.to_isar(schema.decls)
            with open(src, 'w') as f:
                f.write(self.text)
            self.nodes = pyh.run_prophyc(['--isar', src, '--cpp_out', self.dir])['m']
            sources = ['m.pp.cpp']
        elif layout is None:
            src = os.path.join(self.dir, 'm.prophy')
            with open(src, 'w') as f:
                f.write(self.text)
            self.nodes = pyh.run_prophyc([src, '--cpp_out', self.dir])['m']
            sources = ['m.pp.cpp']
        else:
            layout.arrangement = 'flat'
            paths = layout.write(self.dir)
            self.text = '\n'.join('// %s\n%s' % (os.path.basename(p), layout.text(i)) for i, p in enumerate(paths))
            self.nodes = pyh.run_prophyc(paths + ['--cpp_out', self.dir])
            stems = [layout.stem(i) for i in range(layout.nfiles)]
            drv = drv.replace('#include "m.pp.hpp"', '\n'.join('#include "%s.pp.hpp"' % st_ for st_ in reversed(stems)))
            sources = ['%s.pp.cpp' % st_ for st_ in stems]
        with open(os.path.join(self.dir, 'driver.cpp'), 'w') as f:
            f.write(drv)
        self.exe = os.path.join(self.dir, 'drv')
        compile_cxx(['driver.cpp'] + sources, self.exe, self.dir, sanitize=sanitize)

    def layout(self):
        """-> list of (label, expected, observed)"""
        env = dict(os.environ)
        env.update(RUN_ENV)
        p = subprocess.run([self.exe], input=b'layout\n', stdout=subprocess.PIPE, stderr=subprocess.PIPE, timeout=600,
                           env=env)
        got = {}
        for l in p.stdout.decode().splitlines():
            if l.startswith('L '):
                _, i, v = l.split()
                got[int(i)] = int(v)
        return [(label, want, got.get(i)) for i, (label, expr, want) in enumerate(self.facts)]

    def swap(self, items, timeout=600):
        """items: list of (tname, big-endian bytes) -> result dicts {'end': int, 'buf': bytes} or {'crash':..}"""
        cmds = ['swap %s %s' % (t, hexarg(d)) for t, d in items]
        res = run_driver(self.exe, cmds, timeout)
        for r in res:
            if 'buf' in r:
                r['buf'] = b'' if r['buf'] == '-' else bytes.fromhex(r['buf'])
            if 'end' in r:
                r['end'] = int(r['end'])
        return res

    def cleanup(self):
        shutil.rmtree(self.dir, ignore_errors=True)


# --------------------------------------------------------------------------------- libFuzzer target (C07 thorough)
FUZZ_HEAD = r'''
#include "m.ppf.hpp"
#include <cstdio>
#include <cstdlib>
#include <cstring>
#include <vector>
using namespace prophy::generated;

template <class T, prophy::endianness E> static void one(const uint8_t* in, size_t n) {
    // exact-size heap copy: reads past data+size hit an ASan red zone
    uint8_t* data = new uint8_t[n];
    if (n) memcpy(data, in, n);
    T x;
    bool ok = x.template decode<E>(data, n);
    delete[] data;
    if (ok) {
        size_t gbs = x.get_byte_size();
        std::vector<uint8_t> enc = x.template encode<E>();
        if (gbs != n || enc.size() != n) {
            fprintf(stderr, "ORACLE: decode returned true for %zu bytes, get_byte_size=%zu, re-encoded=%zu\n",
                    n, gbs, enc.size());
            abort();
        }
    }
}
'''


def gen_fuzz_target(schema):
    comps = schema.composites()
    src = [FUZZ_HEAD, 'extern "C" int LLVMFuzzerTestOneInput(const uint8_t* data, size_t size) {',
           '    if (size < 2) return 0;', '    unsigned t = data[0] %% %d; unsigned e = data[1] %% 3;' % len(comps),
           '    const uint8_t* p = data + 2; size_t n = size - 2;', '    switch (t) {']
    for i, c in enumerate(comps):
        src.append('    case %d: if (e == 0) one<%s, prophy::little>(p, n); else if (e == 1) one<%s, prophy::big>(p, n); '
                   'else one<%s, prophy::native>(p, n); break;' % (i, c.name, c.name, c.name))
    src.append('    }\n    return 0;\n}')
    return '\n'.join(src)


class FuzzTU(object):
    """schema -> prophyc --cpp_full_out -> libFuzzer binary (clang++, ASan+UBSan)."""

    def __init__(self, schema, workdir=None):
        self.schema = schema
        self.dir = workdir or pyh.fresh_dir('fz')
        self.text = schema.to_prophy()
        src = os.path.join(self.dir, 'm.prophy')
        with open(src, 'w') as f:
            f.write(self.text)
        pyh.run_prophyc([src, '--cpp_full_out', self.dir])
        with open(os.path.join(self.dir, 'fuzz.cpp'), 'w') as f:
            f.write(gen_fuzz_target(schema))
        self.exe = os.path.join(self.dir, 'fuzz')
        cmd = ['clang++', '-std=c++11', '-O1', '-g1', '-w', '-fsanitize=fuzzer,address,undefined',
               '-fno-sanitize=enum', '-fno-sanitize-recover=undefined', '-I', include_dir(), '-I', self.dir,
               'fuzz.cpp', 'm.ppf.cpp', '-o', self.exe]
        p = subprocess.run(cmd, cwd=self.dir, stdout=subprocess.PIPE, stderr=subprocess.STDOUT, timeout=900)
        if p.returncode != 0:
            raise BuildFailed('clang++ fuzz target', p.stdout.decode(errors='replace'))

    def run(self, seed, runs, seeds=(), max_len=256, max_time=0):
        """-> (clean: bool, info dict).  `seeds`: list of byte strings for the initial corpus (may be empty)."""
        corpus = os.path.join(self.dir, 'corpus')
        art = os.path.join(self.dir, 'art')
        shutil.rmtree(corpus, ignore_errors=True)
        shutil.rmtree(art, ignore_errors=True)
        os.makedirs(corpus)
        os.makedirs(art)
        for i, s in enumerate(seeds):
            with open(os.path.join(corpus, 'seed%d' % i), 'wb') as f:
                f.write(s)
        env = dict(os.environ)
        env['ASAN_OPTIONS'] = 'max_allocation_size_mb=64:allocator_may_return_null=0:detect_leaks=0'
        env['UBSAN_OPTIONS'] = 'print_stacktrace=0:halt_on_error=1'
        cmd = [self.exe, '-runs=%d' % runs, '-seed=%d' % (seed or 1), '-max_len=%d' % max_len, '-timeout=60',
               '-rss_limit_mb=3000', '-malloc_limit_mb=64', '-artifact_prefix=%s/' % art, '-print_final_stats=1',
               corpus]
        if max_time:
            cmd.insert(1, '-max_total_time=%d' % max_time)
        p = subprocess.run(cmd, stdout=subprocess.PIPE, stderr=subprocess.PIPE, env=env,
                           timeout=(max_time or 3600) + 600)
        err = p.stderr.decode(errors='replace')
        execs = 0
        for l in err.splitlines():
            if l.startswith('stat::number_of_executed_units:'):
                execs = int(l.split()[-1])
        info = {'execs': execs, 'rc': p.returncode}
        arts = sorted(os.listdir(art))
        if p.returncode != 0 or arts:
            data = b''
            if arts:
                with open(os.path.join(art, arts[0]), 'rb') as f:
                    data = f.read()
            info.update(artifact=data, summary=crash_summary(err), stderr=err[-3000:])
            return False, info
        return True, info

    def cleanup(self):
        shutil.rmtree(self.dir, ignore_errors=True)
