"""Python-side harness: compile a schema with the working tree's prophyc (in-process), load the
generated module, build messages through the public API only, observe through the public API only."""
import io
import os
import shutil
import sys
import tempfile
import contextlib

from .ir import (NUMERIC, Enum, Struct, Union, PLAIN, OPT, FIXARR, DYNARR, LIMARR, GREEDY, EXTARR, UNSET)

REPO = os.environ.get('VERIF_REPO', '/repo')
_ready = False


def setup_repo():
    """Put the tree under test first on sys.path and make sure that is what gets imported."""
    global _ready
    if _ready:
        return
    repo = os.path.abspath(REPO)
    if repo in sys.path:
        sys.path.remove(repo)
    sys.path.insert(0, repo)
    import prophy
    import prophyc
    for mod in (prophy, prophyc):
        if not os.path.abspath(mod.__file__).startswith(repo + os.sep):
            raise RuntimeError("harness error: %s imported from %s, not from %s" % (mod.__name__, mod.__file__, repo))
    _ready = True


_workroot = None


def workroot():
    """Per-process scratch directory (removed at exit by the runner)."""
    global _workroot
    if _workroot is None or not os.path.isdir(_workroot) or _workroot_pid != os.getpid():
        _new_workroot()
    return _workroot


_workroot_pid = None


def _new_workroot():
    global _workroot, _workroot_pid
    base = os.environ.get('VERIF_WORK') or tempfile.gettempdir()
    _workroot = tempfile.mkdtemp(prefix='pv-%d-' % os.getpid(), dir=base)
    _workroot_pid = os.getpid()
    import atexit
    pid = os.getpid()
    root = _workroot

    def _clean():
        if os.getpid() == pid:
            shutil.rmtree(root, ignore_errors=True)
    atexit.register(_clean)


def cleanup_workroot():
    global _workroot
    if _workroot and _workroot_pid == os.getpid():
        shutil.rmtree(_workroot, ignore_errors=True)
        _workroot = None


class CompileFailed(Exception):
    """prophyc refused the input through its designed channel."""


@contextlib.contextmanager
def quiet_stderr():
    old = sys.stderr
    sys.stderr = io.StringIO()
    try:
        yield sys.stderr
    finally:
        sys.stderr = old


_counter = [0]


def fresh_dir(tag='w'):
    _counter[0] += 1
    d = os.path.join(workroot(), '%s%d' % (tag, _counter[0]))
    os.makedirs(d)
    return d


def run_prophyc(args):
    """In-process prophyc.main from the working tree.  Returns model nodes dict.
    ProphycError -> CompileFailed; everything else propagates."""
    setup_repo()
    import prophyc
    with quiet_stderr():
        try:
            return prophyc.main(list(args))
        except prophyc.ProphycError as e:
            raise CompileFailed(str(e))


def load_module_text(text, path='<generated>'):
    setup_repo()
    ns = {'__name__': 'pv_generated'}
    exec(compile(text, path, 'exec'), ns)
    return ns


class PyCodec(object):
    """A schema compiled to Python."""

    def __init__(self, schema, text=None, keep=False, extra_args=()):
        self.schema = schema
        self.text = text if text is not None else schema.to_prophy()
        d = fresh_dir()
        try:
            src = os.path.join(d, 'm.prophy')
            with open(src, 'w') as f:
                f.write(self.text)
            self.nodes = run_prophyc([src, '--python_out', d] + list(extra_args))['m']
            with open(os.path.join(d, 'm.py')) as f:
                self.py_text = f.read()
            self.ns = load_module_text(self.py_text, os.path.join(d, 'm.py'))
        finally:
            if not keep:
                shutil.rmtree(d, ignore_errors=True)

    def cls(self, tname):
        return self.ns[tname]

    def new(self, tname):
        return self.ns[tname]()

    def build(self, tname, val, enum_args=None):
        """enum_args: an EnumArgs object - enum-typed scalars are then assigned in varying argument kinds (number, name,
        enumerator object of the field's enum, enumerator object of another enum with the same number)."""
        msg = self.new(tname)
        fill(msg, self.schema, tname, val, enum_args)
        return msg

    def snapshot(self, tname, msg):
        return snapshot(msg, self.schema, tname)


class EnumArgs(object):
    """Turns the number of an enumerator into one of the argument kinds the runtime accepts for an enum field."""
    KINDS = ('number', 'name', 'own_object', 'foreign_object')

    def __init__(self, ns, start=0):
        self.ns, self.i, self.used = ns, start, set()
        self._foreign = {}

    def __call__(self, enum_decl, number):
        kind = self.KINDS[self.i % len(self.KINDS)]
        self.i += 1
        self.used.add(kind)
        if kind == 'name':
            return [m[0] for m in enum_decl.members if m[1] == number][-1]
        if kind == 'own_object':
            return self.ns[enum_decl.name](number)
        if kind == 'foreign_object':
            # an enumerator that was read from a field of *another* enum type which happens to use the same number
            # (translating a message of an older interface revision field by field)
            if number not in self._foreign:
                import prophy
                cls = prophy.enum_generator('PvForeign%d' % len(self._foreign), (prophy.enum,),
                                            {'_enumerators': [('PvForeign_other', number ^ 1), ('PvForeign_same', number)]})
                holder = prophy.struct_generator('PvForeignHolder%d' % len(self._foreign), (prophy.struct,),
                                                 {'_descriptor': [('e', cls)]})
                h = holder()
                h.e = number
                self._foreign[number] = h.e
            return self._foreign[number]
        return number


def fill(msg, schema, tname, val, enum_args=None):
    """Set `val` into `msg` through the public API."""
    t = schema.resolve(tname)
    ea = (lambda tn, v: enum_args(schema.resolve(tn), v) if isinstance(schema.resolve(tn), Enum) else v) \
        if enum_args else (lambda tn, v: v)
    if val is UNSET:
        return
    if isinstance(t, Union):
        arm = next(a for a in t.arms if a.name == val[0])
        msg.discriminator = arm.disc
        if val[1] is UNSET:
            return
        if schema.is_composite(arm.type):
            fill(getattr(msg, arm.name), schema, arm.type, val[1], enum_args)
        else:
            setattr(msg, arm.name, ea(arm.type, val[1]))
        return
    assert isinstance(t, Struct), t
    sizers = t.sizers()
    for m in t.members:
        if m.name in sizers or m.name not in val:
            continue
        v = val[m.name]
        if v is UNSET:
            continue
        comp = (not m.is_bytes) and schema.is_composite(m.type)
        if m.is_bytes:
            setattr(msg, m.name, v)
        elif m.kind == PLAIN:
            if comp:
                fill(getattr(msg, m.name), schema, m.type, v, enum_args)
            else:
                setattr(msg, m.name, ea(m.type, v))
        elif m.kind == OPT:
            if v is None:
                setattr(msg, m.name, None)
            elif comp:
                setattr(msg, m.name, True)
                fill(getattr(msg, m.name), schema, m.type, v, enum_args)
            else:
                setattr(msg, m.name, ea(m.type, v))
        elif m.kind == FIXARR:
            arr = getattr(msg, m.name)
            if comp:
                for i, x in enumerate(v):
                    fill(arr[i], schema, m.type, x, enum_args)
            else:
                arr[:] = v if m.is_bytes else [ea(m.type, x) for x in v]
        else:
            arr = getattr(msg, m.name)
            if comp:
                for x in v:
                    fill(arr.add(), schema, m.type, x, enum_args)
            else:
                arr[:] = v if m.is_bytes else [ea(m.type, x) for x in v]


def _plain(v):
    """Strip prophy scalar subclasses (enum) down to builtin int / float / bytes."""
    if isinstance(v, bool):
        return v
    if isinstance(v, int):
        return int(v)
    if isinstance(v, float):
        return float(v)
    if isinstance(v, bytes):
        return bytes(v)
    return v


def snapshot(msg, schema, tname):
    """Read the whole observable state of `msg` through attribute reads, len and iteration."""
    t = schema.resolve(tname)
    if isinstance(t, Union):
        disc = msg.discriminator
        arm = next(a for a in t.arms if a.disc == disc)
        v = getattr(msg, arm.name)
        if schema.is_composite(arm.type):
            return (arm.name, snapshot(v, schema, arm.type))
        return (arm.name, _plain(v))
    out = {}
    sizers = t.sizers()
    for m in t.members:
        if m.name in sizers:
            continue
        comp = (not m.is_bytes) and schema.is_composite(m.type)
        v = getattr(msg, m.name)
        if m.is_bytes:
            out[m.name] = _plain(v)
        elif m.kind == PLAIN:
            out[m.name] = snapshot(v, schema, m.type) if comp else _plain(v)
        elif m.kind == OPT:
            if v is None:
                out[m.name] = None
            else:
                out[m.name] = snapshot(v, schema, m.type) if comp else _plain(v)
        else:
            n = len(v)
            items = [x for x in v]
            if len(items) != n:
                raise AssertionError("len() and iteration of array %s disagree" % m.name)
            out[m.name] = [snapshot(x, schema, m.type) if comp else _plain(x) for x in items]
    return out


def values_equal(a, b):
    """Structural equality that distinguishes -0.0 from 0.0 and int from float only by value."""
    if isinstance(a, float) or isinstance(b, float):
        import struct as _s
        try:
            return _s.pack('>d', a) == _s.pack('>d', b)
        except Exception:
            return False
    if isinstance(a, dict) and isinstance(b, dict):
        return a.keys() == b.keys() and all(values_equal(a[k], b[k]) for k in a)
    if isinstance(a, (list, tuple)) and isinstance(b, (list, tuple)):
        return type(a) == type(b) and len(a) == len(b) and all(values_equal(x, y) for x, y in zip(a, b))
    return type(a) == type(b) and a == b
