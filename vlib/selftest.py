"""RefWire self-validation: every worked example of docs/encoding.rst is transcribed here as
(schema, type, value, expected little-endian hex [, expected big-endian hex]).
Run as part of setup_cmd and at the start of every check (<0.1 s)."""
from .ir import Schema, Struct, Union, Enum, Typedef, Member, Arm, PLAIN, OPT, FIXARR, DYNARR, LIMARR, GREEDY, EXTARR
from .refwire import RefWire


def S(name, *members):
    return Struct(name, list(members))


def M(name, type, kind=PLAIN, size=None, sizer=None):
    return Member(name, type, kind, size, sizer)


def hx(s):
    return bytes.fromhex(s.replace('[', '').replace(']', '').replace(' ', ''))


def cases():
    out = []
    # numeric table
    for t, le, be in [('u8', '2a', '2a'), ('i8', '2a', '2a'), ('u16', '2a 00', '00 2a'), ('i16', '2a 00', '00 2a'),
                      ('u32', '2a 00 00 00', '00 00 00 2a'), ('i32', '2a 00 00 00', '00 00 00 2a'),
                      ('u64', '2a 00 00 00 00 00 00 00', '00 00 00 00 00 00 00 2a'),
                      ('i64', '2a 00 00 00 00 00 00 00', '00 00 00 00 00 00 00 2a'),
                      ('r32', '00 00 28 42', '42 28 00 00'),
                      ('r64', '00 00 00 00 00 00 45 40', '40 45 00 00 00 00 00 00')]:
        v = 42.0 if t.startswith('r') else 42
        out.append((Schema([S('X', M('x', t))]), 'X', {'x': v}, le, be))
    out.append((Schema([Enum('E', [['E_a', 42]]), S('X', M('x', 'E'))]), 'X', {'x': 42}, '2a 00 00 00', '00 00 00 2a'))
    # arrays
    out.append((Schema([S('X', M('x', 'u16', FIXARR, 4))]), 'X', {'x': [1, 2, 3, 4]}, '01 00 02 00 03 00 04 00', None))
    out.append((Schema([S('X', M('x', 'u16', DYNARR))]), 'X', {'x': [1, 2]}, '02 00 00 00 01 00 02 00', None))
    out.append((Schema([S('X', M('x', 'u16', LIMARR, 4))]), 'X', {'x': [1, 2]},
                '02 00 00 00 01 00 02 00 00 00 00 00', None))
    out.append((Schema([S('X', M('x', 'u16', GREEDY))]), 'X', {'x': [1, 2]}, '01 00 02 00', None))
    # externally sized (the document's hex is one byte short of its own padding rule; 00 appended)
    out.append((Schema([S('X', M('size', 'u8'), M('x', 'u8', EXTARR, sizer='size'), M('y', 'u16', EXTARR, sizer='size'))]),
                'X', {'x': [4, 5], 'y': [6, 7]}, '02 04 05 00 06 00 07 00', None))
    # optional
    out.append((Schema([S('X', M('x', 'u32', OPT))]), 'X', {'x': 1}, '01 00 00 00 01 00 00 00', None))
    out.append((Schema([S('X', M('x', 'u32', OPT))]), 'X', {'x': None}, '00 00 00 00 00 00 00 00', None))
    # struct
    nested = S('Nested', M('n1', 'u16'), M('n2', 'u16'))
    out.append((Schema([nested, S('X', M('x', 'Nested'), M('y', 'u32'))]), 'X',
                {'x': {'n1': 1, 'n2': 2}, 'y': 3}, '01 00 02 00 03 00 00 00', None))
    # union
    two = S('TwoInts', M('a1', 'u16'), M('a2', 'u16'))
    un = Union('X', [Arm(0, 'u32', 'x'), Arm(1, 'TwoInts', 'y')])
    out.append((Schema([two, un]), 'X', ('x', 1), '00 00 00 00 01 00 00 00', None))
    out.append((Schema([two, un]), 'X', ('y', {'a1': 2, 'a2': 3}), '01 00 00 00 02 00 03 00', None))
    # padding: integer
    out.append((Schema([S('X', M('a', 'u8'), M('b', 'u16'))]), 'X', {'a': 1, 'b': 2}, '01 [00] 02 00', None))
    # padding: composite
    nested = S('Nested', M('n1', 'u16'), M('n2', 'u32'), M('n3', 'u16'))
    out.append((Schema([nested, S('X', M('x', 'u64'), M('y', 'u32'), M('z', 'u8'), M('n', 'Nested'))]), 'X',
                {'x': 1, 'y': 2, 'z': 3, 'n': {'n1': 4, 'n2': 5, 'n3': 6}},
                '01 00 00 00 00 00 00 00 02 00 00 00 03 [00 00 00] 04 00 [00 00] 05 00 00 00'
                '06 00 [00 00][00 00 00 00]', None))
    # padding: dynamic array
    x = Schema([S('X', M('x', 'u8', DYNARR), M('y', 'u8', DYNARR))])
    out.append((x, 'X', {'x': [1], 'y': [2, 3, 4]}, '01 00 00 00 01 [00 00 00] 03 00 00 00 02 03 04 [00]', None))
    out.append((x, 'X', {'x': [], 'y': [1, 2, 3, 4]}, '00 00 00 00 04 00 00 00 01 02 03 04', None))
    x = Schema([S('X', M('x', 'u64', DYNARR))])
    out.append((x, 'X', {'x': [1]}, '01 00 00 00 [00 00 00 00] 01 00 00 00 00 00 00 00', None))
    out.append((x, 'X', {'x': []}, '00 00 00 00 [00 00 00 00]', None))
    # padding: optional
    out.append((Schema([S('X', M('x', 'u8', OPT), M('y', 'u8'))]), 'X', {'x': 1, 'y': 2},
                '01 00 00 00 01 02 [00 00]', None))
    out.append((Schema([S('X', M('x', 'u64', OPT))]), 'X', {'x': 1},
                '01 00 00 00 [00 00 00 00] 01 00 00 00 00 00 00 00', None))
    # padding: union
    out.append((Schema([Union('X', [Arm(1, 'u8', 'x')])]), 'X', ('x', 2), '01 00 00 00 02 [00 00 00]', None))
    u = Schema([Union('X', [Arm(1, 'u64', 'x'), Arm(2, 'u8', 'y')])])
    out.append((u, 'X', ('x', 2), '01 00 00 00 [00 00 00 00] 02 00 00 00 00 00 00 00', None))
    out.append((u, 'X', ('y', 3), '02 00 00 00 [00 00 00 00] 03 [00 00 00 00 00 00 00]', None))
    # fields following dynamic fields
    out.append((Schema([S('X', M('a', 'u8', DYNARR), M('b', 'u8'), M('c', 'u32'), M('d', 'u8', DYNARR), M('e', 'u8'),
                          M('f', 'u64'))]), 'X', {'a': [1], 'b': 2, 'c': 3, 'd': [4], 'e': 5, 'f': 6},
                '01 00 00 00 01 [00 00 00] 02 [00 00 00] 03 00 00 00 01 00 00 00 04 [00 00 00]'
                '05 [00 00 00 00 00 00 00] 06 00 00 00 00 00 00 00', None))
    return out


def run():
    n = 0
    for schema, tname, value, le, be in cases():
        rw = RefWire(schema)
        got, _ = rw.encode(tname, value, '<')
        if got != hx(le):
            raise AssertionError("RefWire disagrees with docs/encoding.rst: %s %r: %s != %s" % (
                schema.to_prophy(), value, got.hex(), hx(le).hex()))
        if be is not None:
            got, _ = rw.encode(tname, value, '>')
            if got != hx(be):
                raise AssertionError("RefWire (big) disagrees with docs: %r" % (value,))
        n += 1
    return n


if __name__ == '__main__':
    print("refwire selftest: %d documented examples reproduced" % run())
