"""Multi-file schemas: partition a generated schema into files that #include each other directly."""
import importlib
import os
import shutil
import sys

from hypothesis import strategies as st

from . import ir, gen, pyh, cpph
from .ir import Const, Enum, Typedef, Struct, Union, Schema, Member, Arm


def decl_name_deps(schema, d):
    """All definitions `d` refers to by name (types and names in expressions; enumerator -> its enum)."""
    owner = {}
    for x in schema.decls:
        if isinstance(x, Enum):
            for m in x.members:
                owner[m[0]] = x.name
    deps = set(ir.decl_type_deps(d))
    exprs = []
    if isinstance(d, Const):
        exprs = [d.expr]
    elif isinstance(d, Enum):
        exprs = [m[2] for m in d.members]
    elif isinstance(d, Struct):
        exprs = [m.size_expr for m in d.members if m.size_expr]
    elif isinstance(d, Union):
        exprs = [a.disc_expr for a in d.arms]
    for e in exprs:
        for name in cpph._IDENT.findall(str(e)):
            name = owner.get(name, name)
            if name in schema.by_name:
                deps.add(name)
    deps.discard(d.name)
    return deps


class Layout(object):
    """A partition of a schema into files + a directory arrangement."""

    def __init__(self, schema, assignment, nfiles, arrangement):
        self.schema = schema
        self.assignment = assignment          # decl name -> file index
        self.nfiles = nfiles
        self.arrangement = arrangement        # 'flat' | 'subdirs' | 'relpath'
        self.files = []                       # per file: list of decls
        for i in range(nfiles):
            self.files.append([d for d in schema.decls if assignment[d.name] == i])
        self.includes = []                    # per file: sorted list of file indexes it includes
        for i in range(nfiles):
            inc = set()
            for d in self.files[i]:
                for dep in decl_name_deps(schema, d):
                    j = assignment[dep]
                    if j != i:
                        inc.add(j)
            self.includes.append(sorted(inc))

    stems = None
    exts = None           # per file: extension (default '.prophy'); the outputs are named after the stem in any case

    def stem(self, i):
        return self.stems[i] if self.stems else 'f%d' % i

    def filename(self, i):
        return self.stem(i) + (self.exts[i] if self.exts else '.prophy')

    def rel_dir(self, i):
        """Directory (relative to the root) that holds file i."""
        if self.arrangement == 'flat':
            return ''
        return 'd%d' % (i % 2)

    def include_text(self, i, j):
        """How file i names file j in its #include."""
        if self.arrangement == 'relpath':
            return os.path.relpath(os.path.join(self.rel_dir(j), self.filename(j)), self.rel_dir(i) or '.')
        return self.filename(j)

    def include_dirs(self, root):
        if self.arrangement == 'subdirs':
            return sorted(set(os.path.join(root, self.rel_dir(i)) for i in range(self.nfiles)))
        return []

    decor = None          # {file index: (comment after every #include line | None, replacement of the final newline | None)}
    blank = None          # {file index: text} of files that hold no definition at all (empty, comment only)

    def text(self, i, extra_includes=()):
        if self.blank and i in self.blank:
            return ''.join('#include "%s"\n' % x for x in extra_includes) + self.blank[i]
        incs = [self.include_text(i, j) for j in self.includes[i]] + list(extra_includes)
        text = self.schema.to_prophy(self.files[i], incs)
        if self.decor and i in self.decor:
            inc_comment, tail = self.decor[i]
            if inc_comment:
                text = '\n'.join(l + inc_comment if l.startswith('#include') else l for l in text.split('\n'))
            if tail is not None:
                text = text.rstrip('\n') + tail
        return text

    def write(self, root):
        paths = []
        for i in range(self.nfiles):
            d = os.path.join(root, self.rel_dir(i))
            os.makedirs(d, exist_ok=True)
            p = os.path.join(d, self.filename(i))
            with open(p, 'w') as f:
                f.write(self.text(i))
            paths.append(p)
        return paths

    def describe(self):
        return {'arrangement': self.arrangement,
                'files': {self.stem(i): {'dir': self.rel_dir(i), 'includes': [self.stem(j) for j in self.includes[i]],
                                         'text': self.text(i)} for i in range(self.nfiles)}}

    def nontrivial(self):
        """>= 3 files and a constant / enumerator of an included file used in a size or discriminator."""
        if self.nfiles < 3:
            return False
        users = {}
        for i in range(self.nfiles):
            for j in self.includes[i]:
                users.setdefault(j, set()).add(i)
        if any(len(u) >= 2 for u in users.values()):
            return True          # a file reached through two different includers (diamond-shaped)
        for d in self.schema.decls:
            exprs = []
            if isinstance(d, Struct):
                exprs = [m.size_expr for m in d.members if m.size_expr]
            elif isinstance(d, Union):
                exprs = [a.disc_expr for a in d.arms]
            for e in exprs:
                for name in cpph._IDENT.findall(str(e)):
                    for x in self.schema.decls:
                        if x.name == name or (isinstance(x, Enum) and any(m[0] == name for m in x.members)):
                            if self.assignment[x.name] != self.assignment[d.name]:
                                return True
        return False


def _add_transitive_chain(draw, schema, assignment, nfiles):
    """Definitions that reach the file using them only *through* another file: a chain of 2-4 files in which each
    file includes just its predecessor, and the last one uses names (typedef of typedef of integer as sizer / element /
    optional, constant defined from a constant as array size and discriminator, typedef of a struct) whose own
    definitions rest on names of files it does not include itself."""
    it = draw(st.sampled_from(['u8', 'u16', 'u32', 'u64', 'i8', 'i32']))
    depth = draw(st.integers(2, 4))
    decls = list(schema.decls)
    f = nfiles

    def put(d, fi):
        decls.append(d)
        assignment[d.name] = fi
    put(Typedef('Tq0', it), f)
    put(Const('Kq0', 2, '2'), f)
    put(Struct('Sq0', [Member('p', 'u8'), Member('q', draw(st.sampled_from(['u8', 'u16', 'u32', 'u64'])))]), f)
    put(Enum('Eq0', [['Eq0_a', 1, '1'], ['Eq0_b', 4, '4']]), f)
    kv = 2
    for i in range(1, depth):
        f += draw(st.integers(0, 1)) if i > 1 else 1
        put(Typedef('Tq%d' % i, 'Tq%d' % (i - 1)), f)
        kv += 1
        put(Const('Kq%d' % i, kv, 'Kq%d + 1' % (i - 1)), f)
        put(Typedef('Sq%d' % i, 'Sq%d' % (i - 1)), f)
        put(Typedef('Eq%d' % i, 'Eq%d' % (i - 1)), f)
    t, k, sx, ex = 'Tq%d' % (depth - 1), 'Kq%d' % (depth - 1), 'Sq%d' % (depth - 1), 'Eq%d' % (depth - 1)
    f += 1
    members = [Member('n', t), Member('ar', draw(st.sampled_from(['u8', 'u16', sx])), ir.EXTARR, sizer='n'),
               Member('fx', sx, ir.FIXARR, kv, size_expr=k), Member('op', draw(st.sampled_from([t, sx, ex])), ir.OPT),
               Member('lm', t, ir.LIMARR, kv, size_expr=k), Member('en', ex), Member('dy', sx, ir.DYNARR)]
    members = [m for m in members if m.name in ('n', 'ar') or draw(st.integers(0, 3))]
    put(Struct('Sq9', members), f)
    put(Union('Uq9', [Arm(kv, t, 'a', disc_expr=k), Arm(kv + 5, sx, 'b', disc_expr=str(kv + 5))]), f)
    return Schema(decls)


@st.composite
def layouts(draw, opts=None, min_files=2, max_files=5, transitive_focus=3, blank_focus=0):
    opts = opts or gen.GenOpts(min_decls=4, max_decls=10, const_exprs=True, big_sizes=False)
    schema = draw(gen.schemas(opts))
    n = draw(st.integers(min_files, max_files))
    assignment = {}
    top = 0
    for d in schema.decls:
        # grow the number of files gradually so that layouts with 4-5 files (diamonds, long chains) are common
        lo = max([assignment[x] for x in decl_name_deps(schema, d)] or [0])
        hi = min(n - 1, max(top + 1, lo))
        assignment[d.name] = draw(st.integers(lo, hi))
        top = max(top, assignment[d.name])
    used = sorted(set(assignment.values()))
    remap = {old: new for new, old in enumerate(used)}
    assignment = {k: remap[v] for k, v in assignment.items()}
    if transitive_focus and draw(st.integers(0, transitive_focus - 1)) == 0:
        schema = _add_transitive_chain(draw, schema, assignment, len(used))
        used = sorted(set(assignment.values()))
    arrangement = draw(st.sampled_from(['flat', 'subdirs', 'relpath', 'relpath']))
    lay = Layout(schema, assignment, len(used), arrangement)
    # redundant direct includes of earlier files are legal and make diamonds / repeated symbols common
    if lay.nfiles >= 3 and draw(st.booleans()):
        for i in range(1, lay.nfiles):
            for j in range(i):
                if j not in lay.includes[i] and draw(st.integers(0, 2)) == 0:
                    lay.includes[i] = sorted(lay.includes[i] + [j])
    # a file without any definition (reserved for later, comment only, empty), included by one or more files
    if blank_focus and draw(st.integers(0, blank_focus - 1)) == 0:
        k = lay.nfiles
        lay.nfiles += 1
        lay.files.append([])
        lay.includes.append([])
        lay.blank = {k: draw(st.sampled_from(['', '// reserved\n', '/* nothing\n   yet */\n', '\n\n']))}
        users = draw(st.lists(st.integers(0, k - 1), min_size=1, max_size=3, unique=True))
        for u in users:
            lay.includes[u] = lay.includes[u] + [k]
    # comments where the grammar allows them: after an #include (with quotes inside), as the last line without newline
    if draw(st.integers(0, 2)) == 0:
        lay.decor = {}
        for i in range(lay.nfiles):
            if draw(st.booleans()):
                lay.decor[i] = (draw(st.sampled_from([None, ' // see "types" for details', ' /* "quoted" */', ' // x'])),
                                draw(st.sampled_from([None, '', '\n// end', '\n// end of "file"', ' // tail', '\n/* bye */'])))
    # the language does not prescribe '.prophy': units.inc, base.def, noext
    if draw(st.integers(0, 3)) == 0:
        lay.exts = [draw(st.sampled_from(['.prophy', '.inc', '.def', '.pr', ''])) for _ in range(lay.nfiles)]
    # a file is sometimes named after a type it defines (Point.prophy holding struct Point)
    if draw(st.integers(0, 2)) == 0:
        stems = []
        for i in range(lay.nfiles):
            named = [d.name for d in lay.files[i] if isinstance(d, (Struct, Union, Enum))]
            if named and draw(st.booleans()):
                stems.append(draw(st.sampled_from(named)))
            else:
                stems.append('f%d' % i)
        if len(set(stems)) == len(stems):
            lay.stems = stems
    return lay


def import_package(pkg_dir):
    """Import every generated module of a directory as a package; returns {stem: module namespace dict}."""
    parent, name = os.path.split(pkg_dir.rstrip('/'))
    open(os.path.join(pkg_dir, '__init__.py'), 'w').close()
    pyh.setup_repo()
    sys.path.insert(0, parent)
    try:
        out = {}
        importlib.invalidate_caches()
        for fn in sorted(os.listdir(pkg_dir)):
            if fn.endswith('.py') and fn != '__init__.py':
                mod = importlib.import_module('%s.%s' % (name, fn[:-3]))
                out[fn[:-3]] = vars(mod)
        return out
    finally:
        sys.path.remove(parent)
        for k in [k for k in sys.modules if k == name or k.startswith(name + '.')]:
            del sys.modules[k]
