"""Constant-expression ASTs: generation, exact reference evaluation, rendering in prophy and isar syntax.

Precedence of the language (prophyc/parsers/prophy.py and prophyc/calc.py agree):
    lowest   + -      (left)
             * /      (left)
             << >>    (left)
    highest  unary -  (right)
Reference semantics: unbounded integers, '/' is integer (floor) division - it is only generated with
non-negative operands and a non-zero divisor (the property's stated domain).
"""
from hypothesis import strategies as st

PREC = {'+': 1, '-': 1, '*': 2, '/': 2, '<<': 3, '>>': 3, 'neg': 4, 'atom': 5}


class Num(object):
    def __init__(self, value, base=10):
        self.value, self.base = value, base

    def eval(self, env):
        return self.value

    def names(self):
        return []


class Name(object):
    def __init__(self, name):
        self.name = name

    def eval(self, env):
        return env[self.name]

    def names(self):
        return [self.name]


class Neg(object):
    def __init__(self, a):
        self.a = a

    def eval(self, env):
        return -self.a.eval(env)

    def names(self):
        return self.a.names()


class Bin(object):
    def __init__(self, op, a, b):
        self.op, self.a, self.b = op, a, b

    def eval(self, env):
        x, y = self.a.eval(env), self.b.eval(env)
        if self.op == '+':
            return x + y
        if self.op == '-':
            return x - y
        if self.op == '*':
            return x * y
        if self.op == '/':
            return x // y
        if self.op == '<<':
            return x << y
        if self.op == '>>':
            return x >> y
        raise ValueError(self.op)

    def names(self):
        return self.a.names() + self.b.names()


class Paren(object):
    """Redundant parentheses."""

    def __init__(self, a):
        self.a = a

    def eval(self, env):
        return self.a.eval(env)

    def names(self):
        return self.a.names()


def prec(e):
    if isinstance(e, Bin):
        return PREC[e.op]
    if isinstance(e, Neg):
        return PREC['neg']
    return PREC['atom']


def render(e, syntax='prophy', sp=' '):
    """Minimal parentheses per the precedence table; syntax: 'prophy' | 'isar' | 'isar-func' (shiftLeft())."""
    if isinstance(e, Num):
        if e.value < 0:
            return '(-%s)' % _lit(-e.value, e.base, syntax)
        return _lit(e.value, e.base, syntax)
    if isinstance(e, Name):
        return e.name
    if isinstance(e, Paren):
        return '(%s)' % render(e.a, syntax, sp)
    if isinstance(e, Neg):
        inner = render(e.a, syntax, sp)
        if prec(e.a) < PREC['neg'] or isinstance(e.a, Neg) or (isinstance(e.a, Num) and e.a.value < 0):
            inner = '(%s)' % inner
        return '-' + inner
    if isinstance(e, Bin):
        p = PREC[e.op]
        left = render(e.a, syntax, sp)
        right = render(e.b, syntax, sp)
        if syntax == 'isar-func' and e.op == '<<':
            return 'shiftLeft(%s, %s)' % (left, right)
        if prec(e.a) < p:
            left = '(%s)' % left
        if prec(e.b) <= p:
            right = '(%s)' % right
        if not sp and right.startswith('-') and e.op in '+-':
            right = '(%s)' % right       # 'a--b' would be a decrement for the C++ reader of isar expression text
        return '%s%s%s%s%s' % (left, sp, e.op, sp, right)
    raise ValueError(e)


def _lit(v, base, syntax):
    if base == 16:
        return hex(v)
    if base == 8 and syntax == 'prophy' and v > 0:
        return '0' + oct(v)[2:]
    return str(v)


def count_ops(e):
    if isinstance(e, Bin):
        return 1 + count_ops(e.a) + count_ops(e.b)
    if isinstance(e, (Neg, Paren)):
        return count_ops(e.a)
    return 0


def op_precs(e):
    if isinstance(e, Bin):
        return {PREC[e.op]} | op_precs(e.a) | op_precs(e.b)
    if isinstance(e, Neg):
        return {PREC['neg']} | op_precs(e.a)
    if isinstance(e, Paren):
        return op_precs(e.a)
    return set()


def has_nondecimal(e):
    if isinstance(e, Num):
        return e.base != 10
    if isinstance(e, Bin):
        return has_nondecimal(e.a) or has_nondecimal(e.b)
    if isinstance(e, (Neg, Paren)):
        return has_nondecimal(e.a)
    return False


LIMIT = 1 << 62


@st.composite
def expressions(draw, env, depth=3, allow_octal=True, allow_neg=True, allow_shift=True, allow_div=True,
                allow_paren=True, allow_rshift=True):
    """Expression over names in `env` (name -> int).  Results and all intermediate values stay inside 63 bits;
    division only with non-negative operands and non-zero divisor; shift counts 0..31 on non-negative values."""

    def leaf():
        k = draw(st.integers(0, 9))
        if env and k < 3:
            return Name(draw(st.sampled_from(sorted(env))))
        base = 10
        if k == 3:
            base = 16
        elif k == 4 and allow_octal:
            base = 8
        v = draw(st.one_of(st.integers(0, 12), st.sampled_from([0, 1, 2, 7, 8, 9, 10, 15, 16, 63, 64, 255, 256, 1000,
                                                                65535, 65536, (1 << 31) - 1, 1 << 31, (1 << 32) - 1]),
                           # wide literals: beyond the 53 bits a double holds exactly, up to the 62-bit working range
                           st.sampled_from([(1 << 53) + 1, (1 << 60) - 1, (1 << 61) + 12345, 0x7FFFFFFFFFFFFFF,
                                            0x1FFFFFFFFFFFFFFF, (1 << 62) - 1, 999999999999999999]),
                           st.integers(1 << 40, (1 << 62) - 1)))
        return Num(v, base)

    def build(d):
        if d <= 0 or draw(st.integers(0, 3)) == 0:
            return leaf()
        kind = draw(st.integers(0, 11))
        if kind == 0 and allow_neg:
            a = build(d - 1)
            return Neg(a)
        if kind == 1 and allow_paren:
            return Paren(build(d - 1))
        ops = ['+', '-', '*']
        if allow_div:
            ops.append('/')
        if allow_shift:
            ops += ['<<', '>>'] if allow_rshift else ['<<']
        op = draw(st.sampled_from(ops))
        a, b = build(d - 1), build(d - 1)
        try:
            x, y = a.eval(env), b.eval(env)
        except ZeroDivisionError:
            return leaf()
        if op == '/':
            if x < 0 or y <= 0:
                op = '+'
        elif op in ('<<', '>>'):
            if x < 0 or not 0 <= y <= 31:
                b = Num(draw(st.integers(0, 8)))
                if x < 0:
                    op = '-'
        e = Bin(op, a, b)
        try:
            v = e.eval(env)
        except ZeroDivisionError:
            return leaf()
        if abs(v) >= LIMIT:
            return leaf()
        return e

    return build(depth)
