"""Hypothesis strategies: schemas (the 'programs' quantifier) and values (the 'inputs' quantifier).

Schemas are *constructed* legal per docs/schema.rst + docs/encoding.rst notes; the builder tracks
the stiffness of every type it has made so no rejection sampling is needed.
"""
from hypothesis import strategies as st

from . import ir
from .ir import (NUMERIC, INTS, Const, Enum, Typedef, Struct, Union, Member, Arm, Schema,
                 PLAIN, OPT, FIXARR, DYNARR, LIMARR, GREEDY, EXTARR, FIXED, DYNAMIC, UNLIMITED, UNSET)
from .refwire import RefWire

FIELD_NAMES = ['a', 'b', 'c', 'd', 'e', 'f', 'g', 'h', 'k', 'm', 'n', 'p', 'q', 'r', 's', 't', 'v', 'w', 'x', 'y',
               'z', 'aa', 'bb', 'len', 'cnt', 'id', 'val', 'data', 'hdr', 'tail', 'Xy', 'f_1', 'q2']

ENUM_VALUES = [0, 1, 2, 3, 4, 5, 7, 10, 100, 255, 256, 65535, 65536, (1 << 31) - 1, 1 << 31, (1 << 32) - 2,
               (1 << 32) - 1]


class GenOpts(object):
    def __init__(self, **kw):
        self.cpp_full_ok = False     # at most one ext-sized array per sizer
        self.allow_greedy = True
        self.allow_float = True
        self.allow_ext = True
        self.allow_bytes = True
        self.nonfixed_bytes = True    # bytes<>, <N>, <...>, <@n> (only bytes[N] when False)
        self.allow_unset = True
        self.unset_bias = (12, 15)    # 1/n of union arms / struct members are left unset
        self.allow_const_refs = True
        self.enum_aliases = True      # enumerators repeating an earlier value (legal in the prophy language, refused by isar)
        self.alias_focus = 0          # 1/n of schemas end with typedef chains over a dynamic and a fixed struct, used as element / optional types
        self.chain_focus = 0          # 1/n of schemas end with typedef -> struct/union -> enumerator-sized array chains
        self.tail_focus = 0           # 1/n of schemas end with a (struct ending in greedy, struct ending in that struct) pair
        self.const_ref_bias = 6      # 1/n of sizes / discriminators refer to a constant when one fits
        self.intlike_bias = 5         # 1/n of integer members (sizers among them) are typed by a typedef (chain) of an integer
        self.rich_size_exprs = False  # array extents written as expressions with shifts / divisions / unary minus (prophy text only)
        self.oddunion_focus = 0       # 1/n of schemas get an 8-aligned union whose largest arm is a <=4-aligned composite of odd size, in holders
        self.size_name_exprs = False  # array extents as NAME*k / NAME + k over small constants (both front-ends can say them)
        self.smallopt_focus = 0       # 1/n of schemas get a fixed struct with a 1/2-byte optional at an odd offset, inside optional / limited array / union
        self.long_fixed_bias = 0      # 1/n of fixed arrays of composites get 8-16 elements (0: never more than 6)
        self.tiny_focus = 0           # 1/n of schemas get an array of dynamic structs that can be shorter than 4 bytes
        self.block_focus = 0          # 1/n of schemas get a struct of 3-5 blocks whose bound arrays find their sizers in any earlier block
        self.const_exprs = False      # constants / enumerators given as expressions over earlier names
        self.min_decls = 1
        self.max_decls = 6
        self.max_members = 6
        self.big_sizes = True        # occasional 16 / 255 / 256 / 300 sized arrays
        self.prefix = ''
        self.avoid = frozenset()     # feature names to steer away from (known findings)
        self.aligned_greedy = True   # values: greedy tails end aligned
        self.enum_zero_one = None    # None: any; False: never contain 0/1 as values
        for k, v in kw.items():
            if not hasattr(self, k):
                raise TypeError(k)
            setattr(self, k, v)


class _Builder(object):
    def __init__(self, draw, opts):
        self.draw = draw
        self.o = opts
        self.decls = []
        self.stiff = {}       # user type name -> stiffness
        self.intlike = []     # typedef names that resolve to an integer numeric
        self.small_consts = []  # (name, value) usable as array sizes
        self.disc_consts = []   # (name, value) usable as discriminators
        self.counter = 0
        self.used_names = set()
        self._odd_sized = set()   # fixed structs with alignment <= 4 and size = 4 (mod 8)
        self.vec = {}         # user type name -> contains (transitively) a limited array (std::vector in C++)

    def fresh(self, stem):
        self.counter += 1
        return '%s%s%d' % (self.o.prefix, stem, self.counter)

    def numeric_pool(self):
        return [n for n in NUMERIC if self.o.allow_float or not NUMERIC[n][2]]

    def _x3_shaped(self, name):
        """fixed struct holding a limited array whose wire alignment is below 8 (trigger of finding X3)"""
        if not self.vec.get(name):
            return False
        return RefWire(Schema(self.decls)).layout(name)[1] < 8

    def pick_type(self, max_stiff, want_user=None, for_optional=False):
        users = [n for n, s in self.stiff.items() if s <= max_stiff]
        if for_optional and 'optional_struct_with_limited' in self.o.avoid:
            users = [n for n in users if not self._x3_shaped(n)]
        if users and (want_user if want_user is not None else self.draw(st.integers(0, 9)) < 6):
            # favour recently defined types: they nest deeper
            idx = self.draw(st.integers(0, len(users) - 1))
            if self.draw(st.booleans()):
                idx = max(idx, len(users) - 1 - self.draw(st.integers(0, min(2, len(users) - 1))))
            aliases = [u for u in users if isinstance(self._decl(u), Typedef) and not self._is_int(u)]
            if aliases and self.draw(st.integers(0, 3)) == 0:
                return self.draw(st.sampled_from(aliases))
            return users[idx]
        return self.draw(st.sampled_from(self.numeric_pool()))

    def _decl(self, name):
        for d in self.decls:
            if d.name == name:
                return d
        return None

    def pick_int_type(self):
        if self.intlike and self.draw(st.integers(0, self.o.intlike_bias - 1)) == 0:
            if self.o.intlike_bias < 5 and self.draw(st.booleans()):
                return self.intlike[-1]         # the most recent one: more often the end of a chain of typedefs
            return self.draw(st.sampled_from(self.intlike))
        return self.draw(st.sampled_from(INTS))

    def array_size(self):
        d = self.draw(st.integers(0, 39))
        if d < 34 or not self.o.big_sizes:
            n = self.draw(st.integers(1, 5))
        else:
            n = [16, 255, 256, 300, 7, 8][d - 34]
        if n == 5 and self.draw(st.booleans()):
            n = 6       # even sizes > 2 can be written as size x size2 in isar
        expr = None
        if self.o.allow_const_refs and self.small_consts and self.draw(st.integers(0, self.o.const_ref_bias - 1)) == 0:
            name, n = self.draw(st.sampled_from(self.small_consts))
            expr = name
        elif self.o.rich_size_exprs and self.draw(st.integers(0, 2)) == 0:
            expr = self.rich_expr(n)
        if self.o.size_name_exprs and self.small_consts and self.draw(st.integers(0, 2)) == 0:
            name, v = self.draw(st.sampled_from(self.small_consts))
            k = self.draw(st.integers(1, 3))
            if self.draw(st.booleans()):
                n, expr = v * k, '%s*%d' % (name, k)
            else:
                n, expr = v + k, '%s + %d' % (name, k)
        return n, expr

    def rich_expr(self, n):
        """An expression denoting n that only reads right under the language's precedence and associativity:
        a generated expression E over literals (all operators, see vlib.expr) corrected to n by a final + / - of a
        literal, or a chain of a left and a right shift by different counts; minimal parentheses, with or without
        blanks."""
        from . import expr as ex
        if self.draw(st.integers(0, 3)) == 0:
            c, a = self.draw(st.integers(1, 4)), self.draw(st.integers(1, 6))
            tree = ex.Bin('>>', ex.Bin('<<', ex.Num(n << c), ex.Num(a)), ex.Num(a + c))
        else:
            e = self.draw(ex.expressions({}, depth=2, allow_octal=False))
            v = e.eval({})
            tree = e if v == n else (ex.Bin('-', e, ex.Num(v - n)) if v > n else ex.Bin('+', e, ex.Num(n - v)))
        assert tree.eval({}) == n
        return ex.render(tree, 'prophy', self.draw(st.sampled_from([' ', ''])))

    # ---- declarations
    def name_expr(self, lo=0, hi=(1 << 32) - 1):
        """(value, text) of a small expression over an earlier constant / enumerator, or None."""
        if not self.disc_consts:
            return None
        n1, v1 = self.draw(st.sampled_from(self.disc_consts))
        form = self.draw(st.integers(0, 6))
        k = self.draw(st.integers(1, 5))
        sp = self.draw(st.sampled_from([' ', '']))      # operators with and without blanks around them
        if form == 0:
            v, text = v1, n1
        elif form == 1:
            v, text = v1 + k, '%s%s+%s%d' % (n1, sp, sp, k)
        elif form == 2:
            v, text = v1 * k, '%s%s*%s%d' % (n1, sp, sp, k)
        elif form == 3:
            v, text = (v1 + k) * 2, '(%s%s+%s%d)%s*%s2' % (n1, sp, sp, k, sp, sp)
        elif form == 4:
            n2, v2 = self.draw(st.sampled_from(self.disc_consts))
            v, text = v1 + v2, '%s%s+%s%s' % (n1, sp, sp, n2)
        elif form == 5:
            v, text = v1 - v1 + k, '%s%s-%s%s%s+%s%d' % (n1, sp, sp, n1, sp, sp, k)
        else:
            if v1 < k:
                return None
            v, text = v1 - k, '%s%s-%s%d' % (n1, sp, sp, k)
        if not lo <= v <= hi:
            return None
        return v, text

    def add_const(self):
        name = self.fresh('K')
        if self.o.const_exprs and self.draw(st.integers(0, 2)) > 0:
            ne = self.name_expr()
            if ne:
                self.decls.append(Const(name, ne[0], ne[1]))
                if 1 <= ne[0] <= 6:
                    self.small_consts.append((name, ne[0]))
                self.disc_consts.append((name, ne[0]))
                return
        v = self.draw(st.one_of(st.integers(1, 6), st.sampled_from(ENUM_VALUES)))
        style = self.draw(st.integers(0, 3))
        expr = str(v) if style else hex(v)
        self.decls.append(Const(name, v, expr))
        if 1 <= v <= 6:
            self.small_consts.append((name, v))
        self.disc_consts.append((name, v))

    def add_enum(self):
        name = self.fresh('E')
        n = self.draw(st.integers(1, 4))
        pool = ENUM_VALUES
        if self.o.enum_zero_one is False:
            pool = [v for v in pool if v not in (0, 1)]
        vals = self.draw(st.lists(st.one_of(st.sampled_from(pool), st.integers(2, (1 << 32) - 1)),
                                  min_size=n, max_size=n, unique=True))
        if len(vals) >= 2 and self.draw(st.integers(0, 2)) == 0:
            # a value that differs from an earlier one only in a high bit / by a power of two (masks, truncations)
            rel = vals[0] ^ (1 << self.draw(st.sampled_from([31, 30, 29, 28, 24, 16, 8])))
            if rel not in vals and (self.o.enum_zero_one is not False or rel not in (0, 1)):
                vals[self.draw(st.integers(1, len(vals) - 1))] = rel
        members = []
        for i, v in enumerate(vals):
            en = '%s_%s' % (name, 'abcd'[i])
            if self.o.const_exprs and self.draw(st.integers(0, 2)) == 0:
                # (only names defined by *earlier definitions*: enumerators of this enum are added afterwards)
                ne = self.name_expr()
                if ne and ne[0] not in vals and ne[0] not in [m[1] for m in members]:
                    members.append([en, ne[0], ne[1]])
                    continue
            members.append([en, v, hex(v) if self.draw(st.integers(0, 3)) == 0 else str(v)])
        if self.o.enum_aliases and len(members) < 5 and self.draw(st.integers(0, 5)) == 0:
            # an alias: the language lets an enumerator repeat the value of an earlier one
            src = self.draw(st.sampled_from(members))
            members.append(['%s_%s' % (name, 'abcde'[len(members)]), src[1], str(src[1])])     # by value: isar cannot name a sibling
        for en, v, _ in members:
            self.disc_consts.append((en, v))
            if 1 <= v <= 6:
                self.small_consts.append((en, v))
        self.decls.append(Enum(name, members))
        self.stiff[name] = FIXED

    def add_typedef(self):
        name = self.fresh('T')
        earlier = [d.name for d in self.decls if isinstance(d, Typedef)]
        comps = [n for n, d in ((d.name, d) for d in self.decls) if isinstance(d, (Struct, Union))]
        k = self.draw(st.integers(0, 5))
        if earlier and k < 2:
            target = self.draw(st.sampled_from(earlier))        # typedef chains (typedef of a typedef of ...)
        elif comps and k < 4:
            target = self.draw(st.sampled_from(comps))          # aliases of composites (used as element types)
        else:
            target = self.pick_type(UNLIMITED)
        self.decls.append(Typedef(name, target))
        self.vec[name] = self.vec.get(target, False)
        if target in NUMERIC:
            self.stiff[name] = FIXED
            if not NUMERIC[target][2]:
                self.intlike.append(name)
        else:
            self.stiff[name] = self.stiff[target]
            if target in self.intlike:
                self.intlike.append(name)

    def add_union(self):
        name = self.fresh('U')
        n = self.draw(st.integers(1, 4))
        discs = self.draw(st.lists(st.one_of(st.integers(0, 6), st.sampled_from(ENUM_VALUES)),
                                   min_size=n, max_size=n, unique=True))
        names = self.draw(st.lists(st.sampled_from(FIELD_NAMES), min_size=n, max_size=n, unique=True))
        arms = []
        odd = [t for t, st_ in self.stiff.items() if st_ == FIXED and t in self._odd_sized]
        for d, an in zip(discs, names):
            expr = None
            if self.o.allow_const_refs and self.draw(st.integers(0, max(self.o.const_ref_bias - 2, 1))) == 0:
                cands = [c for c in self.disc_consts if c[1] == d]
                if cands:
                    expr = cands[0][0]
            k = len(arms)
            if k == 0 and n >= 2 and odd and self.draw(st.integers(0, 2)) == 0:
                arms.append(Arm(d, self.draw(st.sampled_from(odd)), an, expr))     # size = 4 (mod 8), alignment <= 4
            elif k == 1 and arms[0].type in odd:
                arms.append(Arm(d, self.draw(st.sampled_from(['u64', 'i64', 'r64'] if self.o.allow_float else ['u64', 'i64'])), an, expr))
            else:
                arms.append(Arm(d, self.pick_type(FIXED), an, expr))
        self.decls.append(Union(name, arms))
        self.vec[name] = any(self.vec.get(a.type, False) for a in arms)
        self.stiff[name] = FIXED

    def add_struct(self):
        name = self.fresh('S')
        n = self.draw(st.integers(1, self.o.max_members))
        names = self.draw(st.lists(st.sampled_from(FIELD_NAMES), min_size=n + 3, max_size=n + 3, unique=True))
        spare = names[n:]
        names = names[:n]
        members = []
        sizer_use = {}   # sizer member name -> count of arrays
        stiff = FIXED
        kinds_pool = [PLAIN] * 6 + [OPT] * 3 + [FIXARR] * 2 + [DYNARR] * 3 + [LIMARR] * 2
        if self.o.allow_ext:
            kinds_pool += [EXTARR] * 3
        for i, mn in enumerate(names):
            last = (i == n - 1)
            pool = kinds_pool + ([GREEDY] * 3 if (last and self.o.allow_greedy) else [])
            kind = self.draw(st.sampled_from(pool))
            as_bytes = (kind in ir.ARRAY_KINDS and self.o.allow_bytes and self.draw(st.integers(0, 4)) == 0 and
                        (self.o.nonfixed_bytes or kind == FIXARR))
            if kind == PLAIN:
                unl = [u for u, st_ in self.stiff.items() if st_ == UNLIMITED]
                if last and self.o.allow_greedy and unl and self.draw(st.integers(0, 2)) == 0:
                    # a nested unlimited struct as the tail (the only place it may stand) - otherwise rare
                    t = self.draw(st.sampled_from(unl))
                else:
                    t = self.pick_type(UNLIMITED if (last and self.o.allow_greedy) else DYNAMIC)
                members.append(Member(mn, t))
                stiff = max(stiff, FIXED if t in NUMERIC else self.stiff[t])
            elif kind == OPT:
                members.append(Member(mn, self.pick_type(FIXED, for_optional=True), OPT))
            elif kind in (FIXARR, LIMARR):
                size, expr = self.array_size()
                t = 'bytes' if as_bytes else self.pick_type(FIXED)
                if size > 16 and t not in NUMERIC and t != 'bytes':
                    size, expr = 3, None     # keep big arrays to scalars: value trees stay small
                if (self.o.long_fixed_bias and kind == FIXARR and t not in NUMERIC and t != 'bytes' and
                        self.draw(st.integers(0, self.o.long_fixed_bias - 1)) == 0):
                    size, expr = self.draw(st.sampled_from([8, 9, 12, 16])), None
                members.append(Member(mn, t, kind, size, size_expr=expr))
            elif kind in (DYNARR, GREEDY):
                t = 'bytes' if as_bytes else self.pick_type(DYNAMIC)
                members.append(Member(mn, t, kind))
                stiff = max(stiff, DYNAMIC if kind == DYNARR else UNLIMITED)
            elif kind == EXTARR:
                t = 'bytes' if as_bytes else self.pick_type(DYNAMIC)
                cands = [m.name for m in members if m.kind == PLAIN and self._is_int(m.type) and
                         (not self.o.cpp_full_ok or m.name not in sizer_use)]
                if cands and self.draw(st.booleans()):
                    sizer = self.draw(st.sampled_from(cands))
                elif spare:
                    sizer = spare.pop()
                    pos = self.draw(st.integers(0, len(members)))
                    members.insert(pos, Member(sizer, self.pick_int_type()))
                else:
                    members.append(Member(mn, self.pick_type(DYNAMIC), DYNARR))
                    stiff = max(stiff, DYNAMIC)
                    continue
                sizer_use[sizer] = sizer_use.get(sizer, 0) + 1
                members.append(Member(mn, t, EXTARR, sizer=sizer))
                stiff = max(stiff, DYNAMIC)
        if 'raw_part_alignment_decrease' in self.o.avoid:
            from .common import struct_is_x8_shaped
            while len(members) > 1:
                probe = Schema(self.decls + [Struct(name, members)])
                if not struct_is_x8_shaped(RefWire(probe), probe.by_name[name]):
                    break
                dropped = members.pop()
                if dropped.kind == EXTARR and not any(m.sizer == dropped.sizer for m in members):
                    members = [m for m in members if m.name != dropped.sizer]
            stiff = FIXED
            for m in members:
                if m.kind == GREEDY:
                    stiff = UNLIMITED
                elif m.kind in (DYNARR, EXTARR):
                    stiff = max(stiff, DYNAMIC)
                elif m.kind == PLAIN and m.type not in NUMERIC:
                    stiff = max(stiff, self.stiff[m.type])
        self.decls.append(Struct(name, members))
        self.vec[name] = any(m.kind == LIMARR or self.vec.get(m.type, False) for m in members)
        self.stiff[name] = stiff
        if stiff == FIXED:
            size, align, _ = RefWire(Schema(self.decls)).layout(name)
            if align <= 4 and size % 8 == 4:
                self._odd_sized.add(name)

    def _is_int(self, t):
        return (t in NUMERIC and not NUMERIC[t][2]) or t in self.intlike

    def build(self):
        n = self.draw(st.integers(self.o.min_decls, self.o.max_decls))
        if self.o.size_name_exprs:
            # extents over names need names: one or two small constants first
            for _ in range(self.draw(st.integers(1, 2))):
                name = self.fresh('K')
                v = self.draw(st.integers(1, 5))
                self.decls.append(Const(name, v, str(v)))
                self.small_consts.append((name, v))
                self.disc_consts.append((name, v))
        for _ in range(n):
            c = self.draw(st.integers(0, 19))
            if c < 1:
                self.add_const()
            elif c < 3:
                self.add_enum()
            elif c < 6:
                self.add_typedef()
            elif c < 8:
                self.add_union()
            else:
                self.add_struct()
        if not any(isinstance(d, (Struct, Union)) for d in self.decls):
            self.add_struct()
        if self.o.tail_focus and self.o.allow_greedy and self.draw(st.integers(0, self.o.tail_focus - 1)) == 0:
            self.add_tail_pair()
        if self.o.chain_focus and self.draw(st.integers(0, self.o.chain_focus - 1)) == 0:
            self.add_dependency_chain()
        if self.o.alias_focus and self.draw(st.integers(0, self.o.alias_focus - 1)) == 0:
            self.add_alias_chains()
        if self.o.block_focus and self.draw(st.integers(0, self.o.block_focus - 1)) == 0:
            self.add_multiblock_struct()
        if self.o.tiny_focus and self.o.allow_ext and self.draw(st.integers(0, self.o.tiny_focus - 1)) == 0:
            self.add_tiny_dynamic()
        if self.o.oddunion_focus and self.draw(st.integers(0, self.o.oddunion_focus - 1)) == 0:
            self.add_odd_union()
        if self.o.smallopt_focus and self.draw(st.integers(0, self.o.smallopt_focus - 1)) == 0:
            self.add_small_optional()
        return Schema(self.decls)

    def add_small_optional(self):
        """A fixed struct whose optional member has a value alignment below 4 and starts at an offset that is no
        multiple of 4 (the flag's alignment decides its slot), used where only the struct's *static* size matters: as
        an optional that may be absent, in a limited array that may not be full, as the larger arm of a union."""
        s_ = self.fresh('S')
        small = self.draw(st.sampled_from(['u8', 'i8', 'u16', 'i16']))
        head = [Member('a', 'u8')] if self.draw(st.booleans()) else [Member('a', 'u16'), Member('b', 'u8')]
        members = head + [Member('o', small, OPT)]
        if self.draw(st.integers(0, 2)) == 0:
            members.append(Member('z', 'u8'))
        self.decls.append(Struct(s_, members))
        self.stiff[s_] = FIXED
        self.vec[s_] = False
        h = self.fresh('S')
        self.decls.append(Struct(h, [Member('os', s_, OPT), Member('xs', s_, LIMARR, 3), Member('w', 'u32')]))
        self.stiff[h] = FIXED
        self.vec[h] = True
        u = self.fresh('U')
        self.decls.append(Union(u, [Arm(1, 'u8', 'q'), Arm(2, s_, 's')]))
        self.stiff[u] = FIXED
        self.vec[u] = False
        hu = self.fresh('S')
        self.decls.append(Struct(hu, [Member('u', u), Member('t', 'u16')]))
        self.stiff[hu] = FIXED
        self.vec[hu] = False

    def add_odd_union(self):
        """A union of alignment 8 whose *largest* arm is a composite of alignment <= 4 and a size that is 1..4 (mod 8)
        - the shape in which 'discriminator + largest arm' and 'alignment + largest arm' round differently - used as
        the only member, before an 8-aligned member, and as the element of a trailing bound array."""
        odd = self.fresh('S')
        form = self.draw(st.integers(0, 2))
        if form == 0:
            members = [Member('a', 'u32'), Member('b', 'u32'), Member('c', 'u32')]
        elif form == 1:
            members = [Member('x', 'u8', FIXARR, self.draw(st.sampled_from([9, 10, 17])))]
        else:
            members = [Member('a', 'u16'), Member('b', 'u16'), Member('c', 'u16'), Member('d', 'u16'), Member('e', 'u16')]
        self.decls.append(Struct(odd, members))
        self.stiff[odd] = FIXED
        self.vec[odd] = False
        un = self.fresh('U')
        wide = self.draw(st.sampled_from(['u64', 'i64']))
        arms = [Arm(1, odd, 'big'), Arm(2, wide, 'wide')]
        if self.draw(st.booleans()):
            arms.append(Arm(3, 'u16', 'small'))
        if self.draw(st.booleans()):
            arms.reverse()
        self.decls.append(Union(un, arms))
        self.stiff[un] = FIXED
        self.vec[un] = False
        h1, h2, h3 = self.fresh('S'), self.fresh('S'), self.fresh('S')
        self.decls.append(Struct(h1, [Member('c', un)]))
        self.decls.append(Struct(h2, [Member('c', un), Member('t', self.draw(st.sampled_from(['u64', 'u8', 'u32'])))]))
        for h in (h1, h2):
            self.stiff[h] = FIXED
            self.vec[h] = False
        if self.o.allow_ext:
            self.decls.append(Struct(h3, [Member('n', 'u32'), Member('e', h1, EXTARR, sizer='n')]))
            self.stiff[h3] = DYNAMIC
            self.vec[h3] = False

    def add_tiny_dynamic(self):
        """A dynamic struct whose encoding can be 1-3 bytes (1- or 2-byte sizer, 1- or 2-byte elements, alignment below
        4) as the element of a dynamic / greedy array that ends its message: many elements in few bytes."""
        tiny = self.fresh('S')
        sizer_t = self.draw(st.sampled_from(['u8', 'u8', 'u16', 'i8']))
        elem_t = self.draw(st.sampled_from(['u8', 'i8', 'u16'] if sizer_t != 'u16' else ['u8', 'u16', 'i16']))
        self.decls.append(Struct(tiny, [Member('n', sizer_t), Member('x', elem_t, EXTARR, sizer='n')]))
        self.stiff[tiny] = DYNAMIC
        self.vec[tiny] = False
        holder = self.fresh('S')
        members = []
        if self.draw(st.booleans()):
            members.append(Member('hd', self.draw(st.sampled_from(['u8', 'u16', 'u32']))))
        greedy = self.o.allow_greedy and self.draw(st.integers(0, 3)) == 0
        members.append(Member('ts', tiny, GREEDY if greedy else DYNARR))
        self.decls.append(Struct(holder, members))
        self.stiff[holder] = UNLIMITED if greedy else DYNAMIC
        self.vec[holder] = False

    def add_multiblock_struct(self):
        """A struct of 3-5 blocks (each closed by a dynamic field).  Arrays bound to a sizer (`T x<@n>`) pick the sizer
        among the integer members of *any* earlier position - the same block, the first block or one in between -
        a composition that unbiased generation reaches rarely."""
        name = self.fresh('S')
        pool = iter(self.draw(st.permutations(FIELD_NAMES)))
        members, ints, used = [], [], set()
        for b in range(self.draw(st.integers(3, 5))):
            for _ in range(self.draw(st.integers(0 if b and ints else 1, 2))):
                t = self.pick_int_type() if self.draw(st.integers(0, 2)) else self.draw(st.sampled_from(self.numeric_pool()))
                m = Member(next(pool), t)
                members.append(m)
                if self._is_int(t):
                    ints.append(m.name)
            free = [i for i in ints if not (self.o.cpp_full_ok and i in used)]
            if self.o.allow_ext and free and self.draw(st.integers(0, 2)):
                sizer = self.draw(st.sampled_from(free))
                used.add(sizer)
                members.append(Member(next(pool), self.pick_type(FIXED), EXTARR, sizer=sizer))
            else:
                members.append(Member(next(pool), self.pick_type(FIXED), DYNARR))
        if self.draw(st.booleans()):
            members.append(Member(next(pool), self.draw(st.sampled_from(self.numeric_pool()))))
        if 'raw_part_alignment_decrease' in self.o.avoid:
            from .common import struct_is_x8_shaped
            probe = Schema(self.decls + [Struct(name, members)])
            if struct_is_x8_shaped(RefWire(probe), probe.by_name[name]):
                return
        self.decls.append(Struct(name, members))
        self.stiff[name] = DYNAMIC
        self.vec[name] = any(self.vec.get(m.type, False) for m in members)

    def add_alias_chains(self):
        """Typedef chains (depth 1-3) over a dynamic struct and over a fixed struct, used where the generators must
        look through the aliases: element of dynamic / greedy arrays, optional, fixed and limited arrays, union arm."""
        def scalar():
            return self.draw(st.sampled_from(self.numeric_pool()))
        dyn = self.fresh('S')
        self.decls.append(Struct(dyn, [Member('hd', scalar()), Member('xs', scalar(), DYNARR)] +
                                 ([Member('tl', scalar())] if self.draw(st.booleans()) else [])))
        self.stiff[dyn] = DYNAMIC
        self.vec[dyn] = False
        fix = self.fresh('S')
        self.decls.append(Struct(fix, [Member('p', scalar()), Member('q', scalar())]))
        self.stiff[fix] = FIXED
        self.vec[fix] = False

        def chain(target, stiffness):
            name = target
            for _ in range(self.draw(st.integers(1, 3))):
                t = self.fresh('T')
                self.decls.append(Typedef(t, name))
                self.stiff[t] = stiffness
                self.vec[t] = False
                name = t
            return name
        da, fa = chain(dyn, DYNAMIC), chain(fix, FIXED)
        user = self.fresh('S')
        members = [Member('cnt', 'u8'), Member('da', da, DYNARR), Member('fo', fa, OPT), Member('ff', fa, FIXARR, 2),
                   Member('fl', fa, LIMARR, 3), Member('one', da)]
        if self.o.allow_ext:
            members.append(Member('de', da, EXTARR, sizer='cnt'))
        if self.o.allow_greedy and self.draw(st.booleans()):
            members.append(Member('dg', da, GREEDY))
        self.decls.append(Struct(user, members))
        self.stiff[user] = UNLIMITED if members[-1].kind == GREEDY else DYNAMIC
        self.vec[user] = True
        un = self.fresh('U')
        self.decls.append(Union(un, [Arm(1, fa, 'fa'), Arm(2, 'u16', 'n')]))
        self.stiff[un] = FIXED
        self.vec[un] = False

    def add_dependency_chain(self):
        """typedef -> struct / union -> (array size / discriminator) enumerator or constant: a definition that is
        needed only through an expression of a type that something else refers to by name."""
        en = self.fresh('E')
        k = self.draw(st.integers(2, 5))
        self.decls.append(Enum(en, [[en + '_a', k, str(k)], [en + '_b', k + 3, str(k + 3)]]))
        self.stiff[en] = FIXED
        cn = self.fresh('K')
        self.decls.append(Const(cn, 3, '3'))
        ref = self.draw(st.sampled_from([(en + '_a', k), (cn, 3)]))
        sn = self.fresh('S')
        kind = self.draw(st.sampled_from([FIXARR, LIMARR]))
        t = self.draw(st.sampled_from(self.numeric_pool()))
        self.decls.append(Struct(sn, [Member('hd', 'u8'), Member('arr', t, kind, ref[1], size_expr=ref[0])]))
        self.stiff[sn] = FIXED
        self.vec[sn] = kind == LIMARR
        un = self.fresh('U')
        self.decls.append(Union(un, [Arm(k, 'u16', 'p', disc_expr=en + '_a'), Arm(k + 3, sn, 'q', disc_expr=en + '_b')]))
        self.stiff[un] = FIXED
        self.vec[un] = self.vec[sn]
        for target in (sn, un):
            tn = self.fresh('T')
            self.decls.append(Typedef(tn, target))
            self.stiff[tn] = FIXED
            self.vec[tn] = self.vec[target]

    def add_tail_pair(self):
        """An unlimited struct nested as the tail of another struct, with and without dynamic fields around it:
        the composition in which static and dynamic end-padding rules meet (rare in unbiased generation)."""
        def scalars(k, used):
            out = []
            for _ in range(k):
                nm = self.draw(st.sampled_from([n for n in FIELD_NAMES if n not in used]))
                used.add(nm)
                out.append(Member(nm, self.draw(st.sampled_from(self.numeric_pool()))))
            return out
        inner_name, outer_name = self.fresh('S'), self.fresh('S')
        used = {'g', 'tl', 'dd'}
        inner = scalars(self.draw(st.integers(0, 2)), used)
        elem = self.pick_type(DYNAMIC) if self.draw(st.booleans()) else self.draw(st.sampled_from(self.numeric_pool()))
        inner.append(Member('g', 'bytes' if self.draw(st.integers(0, 3)) == 0 else elem, GREEDY))
        self.decls.append(Struct(inner_name, inner))
        self.stiff[inner_name] = UNLIMITED
        self.vec[inner_name] = False
        used = {'g', 'tl', 'dd'}
        outer = scalars(self.draw(st.integers(1, 3)), used)
        if self.draw(st.integers(0, 2)) == 0:
            pos = self.draw(st.integers(0, len(outer)))
            outer.insert(pos, Member('dd', self.draw(st.sampled_from(self.numeric_pool())), DYNARR))
        outer.append(Member('tl', inner_name))
        self.decls.append(Struct(outer_name, outer))
        self.stiff[outer_name] = UNLIMITED
        self.vec[outer_name] = False


@st.composite
def schemas(draw, opts=None):
    return _Builder(draw, opts or GenOpts()).build()


# ---------------------------------------------------------------------------- values
def _int_strategy(t):
    _, _, _, lo, hi = NUMERIC[t]
    edges = sorted(set(v for v in (lo, hi, 0, 1, -1, 2, 127, 128, 255, 256, 32767, 32768, 65535, 65536,
                                   (1 << 31) - 1, 1 << 31, (1 << 32) - 1, 1 << 32, lo + 1, hi - 1) if lo <= v <= hi))
    return st.one_of(st.sampled_from(edges), st.integers(lo, hi))


def default_reaches_nonfixed_bytes(schema, tname):
    """Does the default value of `tname` contain a non-fixed bytes field?"""
    t = schema.resolve(tname)
    if isinstance(t, Union):
        return default_reaches_nonfixed_bytes(schema, t.arms[0].type)
    if not isinstance(t, Struct):
        return False
    for m in t.members:
        if m.is_bytes:
            if m.kind != FIXARR:
                return True
        elif m.kind in (PLAIN, FIXARR) and default_reaches_nonfixed_bytes(schema, m.type):
            return True
    return False


class ValueGen(object):
    def __init__(self, draw, schema, opts=None, rw=None):
        self.draw, self.s, self.o = draw, schema, opts or GenOpts()
        self.rw = rw or RefWire(schema)

    def _must_set_type(self, tname):
        return 'unset_nonfixed_bytes' in self.o.avoid and default_reaches_nonfixed_bytes(self.s, tname)

    def _must_set(self, m):
        if 'unset_nonfixed_bytes' not in self.o.avoid:
            return False
        if m.is_bytes:
            return m.kind != FIXARR
        return m.kind in (PLAIN, FIXARR) and default_reaches_nonfixed_bytes(self.s, m.type)

    def scalar(self, t):
        if NUMERIC[t][2]:
            return self.draw(st.floats(width=32 if t == 'r32' else 64, allow_nan=False))
        return self.draw(_int_strategy(t))

    def value(self, tname, depth=0):
        t = self.s.resolve(tname)
        if isinstance(t, str):
            return self.scalar(t)
        if isinstance(t, Enum):
            return self.draw(st.sampled_from([m[1] for m in t.members]))
        if isinstance(t, Union):
            arm = self.draw(st.sampled_from(t.arms))
            if self.o.allow_unset and self.draw(st.integers(0, self.o.unset_bias[0] - 1)) == 0 and not self._must_set_type(arm.type):
                return (arm.name, UNSET)
            return (arm.name, self.value(arm.type, depth + 1))
        return self.struct(t, depth)

    def _count(self, hi=None):
        d = self.draw(st.integers(0, 19))
        if d < 3:
            n = 0
        elif d < 17:
            n = self.draw(st.integers(1, 4))
        else:
            n = self.draw(st.integers(5, 20))
        return n if hi is None else min(n, hi)

    def elems(self, m, n, depth):
        if m.is_bytes:
            return self.draw(st.binary(min_size=n, max_size=n))
        if n > 6:
            head = [self.value(m.type, depth + 1) for _ in range(3)]
            return head + [head[i % 3] for i in range(n - 3)]
        return [self.value(m.type, depth + 1) for _ in range(n)]

    def struct(self, st_, depth):
        out = {}
        sizers = st_.sizers()
        ext_len = {}
        for sname in sizers:
            sm = next(m for m in st_.members if m.name == sname)
            hi = NUMERIC[self.s.resolve(sm.type)][4]
            ext_len[sname] = self._count(min(hi, 300))
        for m in st_.members:
            if m.name in sizers:
                continue
            if self.o.allow_unset and self.draw(st.integers(0, self.o.unset_bias[1] - 1)) == 0 and not self._must_set(m):
                if m.kind != EXTARR or ext_len[m.sizer] == 0:
                    continue          # left unset: reader must see the default
            if m.kind == PLAIN:
                out[m.name] = self.value(m.type, depth + 1)
            elif m.kind == OPT:
                out[m.name] = None if self.draw(st.integers(0, 2)) == 0 else self.value(m.type, depth + 1)
            elif m.kind == FIXARR:
                if m.is_bytes and self.draw(st.booleans()):
                    # shorter values are legal and are zero padded by the codec
                    k = self.draw(st.integers(0, m.size))
                    out[m.name] = self.draw(st.binary(min_size=k, max_size=k))
                else:
                    out[m.name] = self.elems(m, m.size, depth)
            elif m.kind == LIMARR:
                out[m.name] = self.elems(m, self._count(m.size), depth)
            elif m.kind in (DYNARR, GREEDY):
                out[m.name] = self.elems(m, self._count(), depth)
            elif m.kind == EXTARR:
                out[m.name] = self.elems(m, ext_len[m.sizer], depth)
        return out


def greedy_tail(schema, tname, val):
    """(member, container dict) of the innermost greedy array on the tail chain, or None."""
    t = schema.resolve(tname)
    while isinstance(t, Struct) and t.members:
        m = t.members[-1]
        if m.kind == GREEDY:
            return m, val
        if m.kind == PLAIN and isinstance(schema.resolve(m.type), Struct):
            if val.get(m.name, UNSET) is UNSET:
                val[m.name] = {}
            val = val[m.name]
            t = schema.resolve(m.type)
            continue
        return None
    return None


def align_greedy_tail(rw, tname, val):
    """Append default elements to the greedy tail until no padding follows it.  Returns False if
    not achievable within 16 extra elements."""
    if not rw.has_greedy_tail(tname):
        return True
    for _ in range(17):
        if rw.trailing_padding_after_greedy(tname, val) == 0:
            return True
        m, holder = greedy_tail(rw.s, tname, val)
        cur = holder.get(m.name, UNSET)
        if cur is UNSET:
            cur = b'' if m.is_bytes else []
        if m.is_bytes:
            holder[m.name] = cur + b'\x00'
        else:
            holder[m.name] = list(cur) + [rw.default(m.type)]
    return False


@st.composite
def schema_with_values(draw, opts=None, values_per_type=1, roots='all'):
    """-> (schema, [(type name, value), ...]) for every struct/union (or the last one)."""
    from hypothesis import assume
    opts = opts or GenOpts()
    schema = draw(schemas(opts))
    rw = RefWire(schema)
    vg = ValueGen(draw, schema, opts, rw)
    comps = schema.composites()
    if roots == 'last':
        comps = comps[-1:]
    cases = []
    for c in comps:
        for _ in range(values_per_type):
            v = vg.value(c.name)
            if opts.aligned_greedy:
                assume(align_greedy_tail(rw, c.name, v))
            cases.append((c.name, v))
    return schema, cases


# ---------------------------------------------------------------------------- classification
def schema_features(rw, tname, _seen=None):
    """Structural features of a type (transitively): used for histograms, non-triviality rules and
    known-finding triggers."""
    s = rw.s
    t = s.resolve(tname)
    feats = set()
    if isinstance(t, str):
        if NUMERIC[t][2]:
            feats.add('float')
        return feats
    if isinstance(t, Enum):
        feats.add('enum')
        vals = set(m[1] for m in t.members)
        if 1 not in vals:
            feats.add('enum_without_1')
        return feats
    if isinstance(t, Union):
        feats.add('union')
        if rw.layout(t.name)[1] == 8:
            feats.add('union_align8')
        for a in t.arms:
            sub = schema_features(rw, a.type)
            feats |= sub
            if s.is_composite(a.type):
                feats.add('nested_composite')
        return feats
    fields = rw.wire_fields(t)
    size, align, stiff = rw.layout(t.name)
    feats.add('struct_' + ir.KIND_NAMES[stiff])
    pos_known = True
    pos = 0
    for i, f in enumerate(fields):
        m = f.member
        if i > 0 and fields[i - 1].dynamic:
            feats.add('field_after_dynamic')
            pm = fields[i - 1].member
            if pm.kind == PLAIN:
                feats.add('field_after_nested_dynamic_struct')
            if f.block_align > f.align:
                feats.add('block_align_raised')
        if m.kind == OPT:
            feats.add('optional')
            ea = rw.elem_layout(m.type)[1]
            feats.add('optional_of_align%d' % ea)
            if isinstance(s.resolve(m.type), Enum):
                feats.add('optional_enum')
            if s.is_composite(m.type):
                feats.add('optional_composite')
        if m.kind in (LIMARR,):
            feats.add('limited')
            if not m.is_bytes and s.is_composite(m.type):
                feats.add('limited_composite')
        if m.kind == FIXARR:
            feats.add('fixed_array')
        if m.kind == DYNARR:
            feats.add('dynamic_array')
        if m.kind == EXTARR:
            feats.add('ext_array')
        if m.kind == GREEDY:
            feats.add('greedy')
        if m.is_bytes:
            feats.add('bytes')
            if m.kind != FIXARR:
                feats.add('bytes_nonfixed')
        elif m.type not in NUMERIC:
            feats |= schema_features(rw, m.type)
            if s.is_composite(m.type):
                feats.add('nested_composite')
                if m.kind in (DYNARR, EXTARR, GREEDY) and rw.elem_layout(m.type)[2] == DYNAMIC:
                    feats.add('dynamic_struct_in_dynamic_array')
        elif NUMERIC[m.type][2]:
            feats.add('float')
    sz = t.sizers()
    for sname, arrs in sz.items():
        if len(arrs) > 1:
            feats.add('shared_sizer')
        sm = next(m for m in t.members if m.name == sname)
        base = s.resolve(sm.type)
        if NUMERIC[base][0] < 4:
            feats.add('narrow_sizer')
        if NUMERIC[base][3] < 0:
            feats.add('signed_sizer')
    return feats


def value_features(rw, tname, val):
    data, spans = rw.encode(tname, val, '<')
    covered = sum(e - s for s, e, _, _ in spans)
    feats = set()
    if covered < len(data):
        feats.add('has_padding')
    if any(r in ('int', 'float', 'enum', 'counter', 'flag', 'disc') and (e - s) > 1 for s, e, r, _ in spans):
        feats.add('multibyte_scalar')
    for s, e, r, _ in spans:
        if r == 'flag':
            feats.add('optional_present')
        if r == 'bytes':
            feats.add('bytes_nonempty')
    return feats
