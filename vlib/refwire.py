"""Reference wire model, written from docs/encoding.rst and docs/schema.rst only.

It shares no code with prophy/ or prophyc/.  `RefWire(schema)` answers
  layout(type)          -> (size or None, alignment, stiffness)
  encode(type, value,e) -> (bytes, spans)
  default(type)         -> default value tree
spans: list of (start, end, role, info) for every non-padding byte run;
roles: 'int','float','enum','counter','flag','disc','bytes'.  Anything not
covered by a span is padding / unused slot and is zero in canonical form.
"""
import struct as _struct

from . import ir
from .ir import NUMERIC, Struct, Union, Enum, PLAIN, OPT, FIXARR, DYNARR, LIMARR, GREEDY, EXTARR, UNSET
from .ir import FIXED, DYNAMIC, UNLIMITED

FLAG = 4  # size and alignment of optional flag, union discriminator, array counter, enum


def roundup(n, a):
    return (n + a - 1) // a * a


class WireField(object):
    """One wire-level field of a struct (a member may contribute two: counter + elements)."""
    __slots__ = ('member', 'role', 'align', 'dynamic', 'block_align')

    def __init__(self, member, role, align, dynamic):
        self.member, self.role, self.align, self.dynamic = member, role, align, dynamic
        self.block_align = align


class RefWire(object):
    def __init__(self, schema):
        self.s = schema
        self._layout = {}
        self._wf = {}

    # ------------------------------------------------------------------ statics
    def elem_layout(self, tname):
        """(size|None, align, stiffness) of a type used as a field/element type."""
        t = self.s.resolve(tname)
        if isinstance(t, str):
            w = NUMERIC[t][0]
            return w, w, FIXED
        if isinstance(t, Enum):
            return FLAG, FLAG, FIXED
        return self.layout(t.name)

    def layout(self, tname):
        t = self.s.resolve(tname)
        if isinstance(t, str) or isinstance(t, Enum):
            return self.elem_layout(tname)
        if t.name in self._layout:
            return self._layout[t.name]
        if isinstance(t, Union):
            align = max([FLAG] + [self.elem_layout(a.type)[1] for a in t.arms])
            size = roundup(align + max(self.elem_layout(a.type)[0] for a in t.arms), align)
            res = (size, align, FIXED)
        else:
            res = self._struct_layout(t)
        self._layout[t.name] = res
        return res

    def member_stiffness(self, m):
        if m.kind == GREEDY:
            return UNLIMITED
        if m.kind in (DYNARR, EXTARR):
            return DYNAMIC
        if m.is_bytes:
            return FIXED
        return self.elem_layout(m.type)[2]

    def wire_fields(self, st):
        if st.name in self._wf:
            return self._wf[st.name]
        fields = []
        for m in st.members:
            if m.is_bytes:
                ealign, esize, estiff = 1, 1, FIXED
            else:
                esize, ealign, estiff = self.elem_layout(m.type)
            if m.kind == PLAIN:
                fields.append(WireField(m, 'value', ealign, estiff != FIXED))
            elif m.kind == OPT:
                fields.append(WireField(m, 'opt', max(FLAG, ealign), False))
            elif m.kind == FIXARR:
                fields.append(WireField(m, 'elems', ealign, False))
            elif m.kind == LIMARR:
                fields.append(WireField(m, 'counter', FLAG, False))
                fields.append(WireField(m, 'elems', ealign, False))
            elif m.kind == DYNARR:
                fields.append(WireField(m, 'counter', FLAG, False))
                fields.append(WireField(m, 'elems', ealign, True))
            elif m.kind in (EXTARR, GREEDY):
                fields.append(WireField(m, 'elems', ealign, True))
        # block rule: the first field after a dynamic field gets the greatest alignment of its block
        i = 0
        n = len(fields)
        while i < n:
            if i > 0 and fields[i - 1].dynamic:
                j = i
                a = 1
                while j < n:
                    a = max(a, fields[j].align)
                    if fields[j].dynamic:
                        break
                    j += 1
                fields[i].block_align = a
            i += 1
        self._wf[st.name] = fields
        return fields

    def _struct_layout(self, st):
        fields = self.wire_fields(st)
        align = max([f.align for f in fields] or [1])
        stiff = FIXED
        for idx, m in enumerate(st.members):
            stiff = max(stiff, self.member_stiffness(m))
        size = None
        if stiff == FIXED:
            pos = 0
            for f in fields:
                pos = roundup(pos, f.block_align)
                pos += self._fixed_field_size(f)
            size = roundup(pos, align)
        return (size, align, stiff)

    def _fixed_field_size(self, f):
        m = f.member
        esize = 1 if m.is_bytes else self.elem_layout(m.type)[0]
        if f.role == 'counter':
            return FLAG
        if f.role == 'value':
            return esize
        if f.role == 'opt':
            return f.align + esize
        if f.role == 'elems':
            return esize * m.size
        raise ValueError(f.role)

    def stiffness(self, tname):
        return self.layout(tname)[2]

    def static_offsets(self, st):
        """Offsets of wire fields of a struct, relative to struct start, as long as they are static,
        plus per-block relative offsets: list of (field, block_index, offset_in_block)."""
        fields = self.wire_fields(st)
        out = []
        pos = 0
        block = 0
        for f in fields:
            pos = roundup(pos, f.block_align)
            out.append((f, block, pos))
            if f.dynamic:
                block += 1
                pos = 0
            else:
                pos += self._fixed_field_size(f)
        return out

    # ------------------------------------------------------------------ defaults
    def default(self, tname):
        t = self.s.resolve(tname)
        if isinstance(t, str):
            return 0.0 if NUMERIC[t][2] else 0
        if isinstance(t, Enum):
            return t.members[0][1]
        if isinstance(t, Union):
            a = t.arms[0]
            return (a.name, self.default(a.type))
        return {m.name: self.member_default(m) for m in t.members if m.name not in t.sizers()}

    def member_default(self, m):
        if m.is_bytes:
            return b'\x00' * m.size if m.kind == FIXARR else b''
        if m.kind == PLAIN:
            return self.default(m.type)
        if m.kind == OPT:
            return None
        if m.kind == FIXARR:
            return [self.default(m.type) for _ in range(m.size)]
        return []

    def normalize(self, tname, val):
        """Replace UNSET by defaults, pad fixed bytes: the value a reader must observe."""
        t = self.s.resolve(tname)
        if val is UNSET:
            return self.default(tname)
        if isinstance(t, (str, Enum)):
            return val
        if isinstance(t, Union):
            arm = next(a for a in t.arms if a.name == val[0])
            return (val[0], self.normalize(arm.type, val[1]))
        out = {}
        sizers = t.sizers()
        for m in t.members:
            if m.name in sizers:
                continue
            v = val.get(m.name, UNSET)
            if v is UNSET:
                out[m.name] = self.member_default(m)
            elif m.is_bytes:
                out[m.name] = v.ljust(m.size, b'\x00') if m.kind == FIXARR else v
            elif m.kind == PLAIN:
                out[m.name] = self.normalize(m.type, v)
            elif m.kind == OPT:
                out[m.name] = None if v is None else self.normalize(m.type, v)
            else:
                out[m.name] = [self.normalize(m.type, x) for x in v]
        return out

    # ------------------------------------------------------------------ encoding
    def encode(self, tname, val, e):
        buf = bytearray()
        spans = []
        self._enc(tname, self.normalize(tname, val), e, buf, spans)
        return bytes(buf), spans

    def _pad_to(self, buf, align):
        n = roundup(len(buf), align) - len(buf)
        if n:
            buf.extend(b'\x00' * n)

    def _put(self, buf, spans, data, role, info=None):
        spans.append((len(buf), len(buf) + len(data), role, info))
        buf.extend(data)

    def _enc(self, tname, val, e, buf, spans):
        t = self.s.resolve(tname)
        if isinstance(t, str):
            w, code, isf, _, _ = NUMERIC[t]
            self._put(buf, spans, _struct.pack(e + code, val), 'float' if isf else 'int', w)
        elif isinstance(t, Enum):
            self._put(buf, spans, _struct.pack(e + 'I', val), 'enum', 4)
        elif isinstance(t, Union):
            size, align, _ = self.layout(t.name)
            start = len(buf)
            arm = next(a for a in t.arms if a.name == val[0])
            self._put(buf, spans, _struct.pack(e + 'I', arm.disc), 'disc', 4)
            buf.extend(b'\x00' * (align - FLAG))
            self._enc(arm.type, val[1], e, buf, spans)
            buf.extend(b'\x00' * (start + size - len(buf)))
        else:
            self._enc_struct(t, val, e, buf, spans)

    def last_member_offset(self, tname, val):
        """Offset of the first wire field of the last member of the outermost struct."""
        self._depth = 0
        self._last_member_at = None
        self.encode(tname, val, '<')
        return self._last_member_at

    _depth = 0
    _last_member_at = None

    def _enc_struct(self, st, val, e, buf, spans):
        self._depth += 1
        try:
            self._enc_struct_body(st, val, e, buf, spans)
        finally:
            self._depth -= 1

    def _enc_struct_body(self, st, val, e, buf, spans):
        _, salign, _ = self.layout(st.name)
        sizers = st.sizers()
        seen_last = False
        for f in self.wire_fields(st):
            m = f.member
            self._pad_to(buf, f.block_align)
            if self._depth == 1 and m is st.members[-1] and not seen_last:
                seen_last = True
                self._last_member_at = len(buf)
            if m.name in sizers:  # plain integer member whose value is the length of its arrays
                lens = set(len(val[a]) for a in sizers[m.name])
                assert len(lens) == 1, "arrays sharing a sizer must have equal lengths"
                t = self.s.resolve(m.type)
                w, code = NUMERIC[t][0], NUMERIC[t][1]
                self._put(buf, spans, _struct.pack(e + code, lens.pop()), 'counter', w)
                continue
            v = val[m.name]
            if f.role == 'counter':
                self._put(buf, spans, _struct.pack(e + 'I', len(v)), 'counter', 4)
            elif f.role == 'value':
                self._enc(m.type, v, e, buf, spans)
            elif f.role == 'opt':
                esize = self.elem_layout(m.type)[0]
                start = len(buf)
                if v is None:
                    buf.extend(b'\x00' * (f.align + esize))
                else:
                    self._put(buf, spans, _struct.pack(e + 'I', 1), 'flag', 4)
                    buf.extend(b'\x00' * (f.align - FLAG))
                    self._enc(m.type, v, e, buf, spans)
                    assert len(buf) == start + f.align + esize
            elif f.role == 'elems':
                start = len(buf)
                if m.is_bytes:
                    if v:
                        self._put(buf, spans, v, 'bytes', None)
                else:
                    for x in v:
                        self._enc(m.type, x, e, buf, spans)
                if m.kind == GREEDY:
                    self._greedy_end = len(buf)
                if m.kind in (FIXARR, LIMARR):
                    esize = 1 if m.is_bytes else self.elem_layout(m.type)[0]
                    slot = esize * m.size
                    assert len(buf) - start <= slot
                    buf.extend(b'\x00' * (start + slot - len(buf)))
        self._pad_to(buf, salign)

    # ------------------------------------------------------------------ helpers
    def trailing_padding_after_greedy(self, tname, val):
        """Number of padding bytes that follow the outermost greedy tail (0 if no greedy tail)."""
        if not self.has_greedy_tail(tname):
            return 0
        self._greedy_end = None
        data, spans = self.encode(tname, val, '<')
        return len(data) - self._greedy_end

    def has_greedy_tail(self, tname):
        return self.layout(tname)[2] == UNLIMITED
