"""Helpers shared by property modules: payloads for replay files, samples for evidence,
classification of failures against the committed known-findings file."""
import traceback

from . import ir
from .ir import Schema
from .runner import known_findings


def exc_info(ex):
    tb = traceback.extract_tb(ex.__traceback__)
    inner = None
    for fr in tb:
        if '/prophy/' in fr.filename or '/prophyc/' in fr.filename:
            inner = fr
    return {'type': type(ex).__name__, 'message': str(ex)[:500],
            'frame': ('%s:%d %s' % (inner.filename, inner.lineno, inner.name)) if inner else None}


def case_payload(schema, tname, val, details=None):
    return {'schema_text': schema.to_prophy(), 'schema': schema.to_json(), 'type': tname,
            'value': ir.value_to_json(val), 'details': details or {}}


def case_from_payload(payload):
    c = payload['case']
    return Schema.from_json(c['schema']), c['type'], ir.value_from_json(c['value'])


def sample(schema, tname, val, rw=None):
    s = {'schema': schema.to_prophy(), 'type': tname, 'value': ir.value_to_json(val)}
    if rw is not None:
        try:
            s['canonical_le'] = rw.encode(tname, val, '<')[0].hex()
        except Exception:
            pass
    return s


# ----------------------------------------------------------------------------------------------
# Known findings.  A failure is attributed to a finding only when (a) the finding is listed as
# open for this property in known_findings.json and (b) the predicate below - the specific
# structural trigger of the finding - holds for the failing case.  Everything else is a violation.
PREDICATES = {}


def predicate(fid):
    def deco(fn):
        PREDICATES[fid] = fn
        return fn
    return deco


def classify_known(prop, schema, rw, tname, val, bad):
    kf = known_findings()
    for fid, fn in PREDICATES.items():
        if kf.is_open(fid, prop):
            try:
                if fn(prop, schema, rw, tname, val, bad):
                    return fid
            except Exception:
                continue
    return None


def avoid_set(prop):
    """Feature names generators should steer away from, derived from open findings."""
    kf = known_findings()
    out = set()
    for fid, e in kf.open.items():
        if prop in e.get('properties', []):
            out |= set(e.get('avoid', []))
    return frozenset(out)


# ---------------------------------------------------------------------------------------------- P3
from .gen import default_reaches_nonfixed_bytes as _drnb


def _default_reaches_nonfixed_bytes(schema, tname):
    return _drnb(schema, tname)


def leaves_nonfixed_bytes_unset(schema, tname, val):
    """True if building `val` leaves a non-fixed bytes field unassigned somewhere."""
    t = schema.resolve(tname)
    if val is ir.UNSET:
        return _default_reaches_nonfixed_bytes(schema, tname)
    if isinstance(t, ir.Union):
        arm = next(a for a in t.arms if a.name == val[0])
        return leaves_nonfixed_bytes_unset(schema, arm.type, val[1])
    if not isinstance(t, ir.Struct):
        return False
    sizers = t.sizers()
    for m in t.members:
        if m.name in sizers:
            continue
        v = val.get(m.name, ir.UNSET)
        if m.is_bytes:
            if m.kind != ir.FIXARR and v is ir.UNSET:
                return True
            continue
        if v is ir.UNSET:
            if m.kind in (ir.PLAIN, ir.FIXARR) and _default_reaches_nonfixed_bytes(schema, m.type):
                return True
            continue
        if m.kind == ir.PLAIN:
            if leaves_nonfixed_bytes_unset(schema, m.type, v):
                return True
        elif m.kind == ir.OPT:
            if v is not None and leaves_nonfixed_bytes_unset(schema, m.type, v):
                return True
        else:
            if any(leaves_nonfixed_bytes_unset(schema, m.type, x) for x in v):
                return True
    return False


@predicate('P3')
def _p3(prop, schema, rw, tname, val, bad):
    det = bad[1] or {}
    ex = det.get('exception') or {}
    is_p3_exc = ex.get('type') == 'TypeError' and 'fill character' in (ex.get('message') or '') \
        and 'composite.py' in (ex.get('frame') or '')
    return (is_p3_exc or det.get('p3_text')) and leaves_nonfixed_bytes_unset(schema, tname, val)


# ---------------------------------------------------------------------------------------------- regress
def run_regress(prop, stats, check_case_fn):
    """Replay tier: saved minimal inputs of defects found earlier (and since repaired) are re-run first."""
    import glob
    import json
    import os
    from .refwire import RefWire
    from .runner import VERIF
    for path in sorted(glob.glob(os.path.join(VERIF, 'regress', prop, '*.json'))):
        with open(path) as f:
            payload = json.load(f)
        schema, tname, val = case_from_payload(payload)
        det = payload['case'].get('details') or {}
        fault = payload['case'].get('fault')
        if fault is None and 'input' in det and 'endianness' in det:
            fault = {'input': det['input'], 'endianness': det['endianness']}
        import inspect
        if 'fault' in inspect.signature(check_case_fn).parameters:
            bad = check_case_fn(schema, tname, val, fault=fault)
        else:
            bad = check_case_fn(schema, tname, val)
        stats.notes['regress_cases'] += 1
        if bad:
            rw = RefWire(schema)
            fid = classify_known(prop, schema, rw, tname, val, bad)
            if fid:
                stats.known_finding(fid, os.path.basename(path))
            else:
                stats.violations.append({'what': 'regression input %s: %s' % (os.path.basename(path), bad[0]),
                                         'case': case_payload(schema, tname, val, bad[1])})


# ---------------------------------------------------------------------------------------------- X3
def _contains_limited(schema, tname, seen=None):
    t = schema.resolve(tname)
    if isinstance(t, ir.Union):
        return any(_contains_limited(schema, a.type) for a in t.arms)
    if not isinstance(t, ir.Struct):
        return False
    for m in t.members:
        if m.kind == ir.LIMARR:
            return True
        if not m.is_bytes and m.type not in ir.NUMERIC and _contains_limited(schema, m.type):
            return True
    return False


def has_x3_trigger(schema, rw, tname, _seen=None):
    """Type reaches an optional field whose (fixed) struct type holds a limited array and has wire alignment < 8:
    the C++ full codec then pads the flag to the C++ ABI alignment (8) of the std::vector inside."""
    seen = _seen if _seen is not None else set()
    t = schema.resolve(tname)
    if isinstance(t, str) or isinstance(t, ir.Enum) or t.name in seen:
        return False
    seen.add(t.name)
    if isinstance(t, ir.Union):
        return any(has_x3_trigger(schema, rw, a.type, seen) for a in t.arms)
    for m in t.members:
        if m.is_bytes or m.type in ir.NUMERIC:
            continue
        if m.kind == ir.OPT and _contains_limited(schema, m.type) and rw.elem_layout(m.type)[1] < 8:
            return True
        if has_x3_trigger(schema, rw, m.type, seen):
            return True
    return False


@predicate('X3')
def _x3(prop, schema, rw, tname, val, bad):
    return has_x3_trigger(schema, rw, tname)


# ---------------------------------------------------------------------------------------------- X8 / X9
def struct_is_x8_shaped(rw, st):
    """A part (block >= 1) is followed by a part of smaller alignment: the generated swap of the first aligns its
    end pointer to its *own* alignment before the caller aligns to the next part's."""
    fields = rw.wire_fields(st)
    blocks = []
    cur = None
    for i, f in enumerate(fields):
        if i == 0 or fields[i - 1].dynamic:
            cur = [f.block_align, False]
            blocks.append(cur)
        cur[1] = f.dynamic
    for i in range(1, len(blocks) - 1):
        if blocks[i + 1][0] < blocks[i][0]:
            return True
    return False


def reaches_x8(schema, rw, tname, _seen=None):
    seen = _seen if _seen is not None else set()
    t = schema.resolve(tname)
    if isinstance(t, str) or isinstance(t, ir.Enum) or t.name in seen:
        return False
    seen.add(t.name)
    if isinstance(t, ir.Union):
        return any(reaches_x8(schema, rw, a.type, seen) for a in t.arms)
    if struct_is_x8_shaped(rw, t):
        return True
    return any(reaches_x8(schema, rw, m.type, seen) for m in t.members if not m.is_bytes and m.type not in ir.NUMERIC)


@predicate('X8')
def _x8(prop, schema, rw, tname, val, bad):
    return reaches_x8(schema, rw, tname)


@predicate('X9')
def _x9(prop, schema, rw, tname, val, bad):
    return bool((bad[1] or {}).get('x9_signature'))


# ---------------------------------------------------------------------------------------------- atheris
def run_atheris(prop, seed, runs, max_time, stats):
    """Thorough tiers of C06 / C13: one coverage-guided campaign (tools/fuzz_py.py) per worker."""
    import json
    import os
    import shutil
    import subprocess
    import sys
    from . import pyh
    from .runner import VERIF
    out = pyh.fresh_dir('ath')
    env = dict(os.environ, PYTHONHASHSEED='0')
    try:
        p = subprocess.run([sys.executable, os.path.join(VERIF, 'tools', 'fuzz_py.py'), prop, str(seed), str(runs), out,
                            str(max_time)], stdout=subprocess.PIPE, stderr=subprocess.STDOUT, env=env,
                           timeout=max_time + 900)
        st = {}
        if os.path.exists(os.path.join(out, 'stats.json')):
            st = json.load(open(os.path.join(out, 'stats.json')))
        stats.notes['atheris_execs'] += int(st.get('execs', 0))
        stats.notes['atheris_campaigns'] += 1
        vio = os.path.join(out, 'violation.json')
        if os.path.exists(vio):
            v = json.load(open(vio))
            return v
        if p.returncode not in (0,):
            tail = p.stdout.decode(errors='replace')[-1500:]
            # libFuzzer's own crash (uncaught exception in the target = harness problem) is reported as such
            stats.errors.append('atheris campaign for %s exited with %d: %s' % (prop, p.returncode, tail))
        return None
    finally:
        shutil.rmtree(out, ignore_errors=True)
