"""Helpers shared by property modules: payloads for replay files, samples for evidence,
classification of failures against the committed known-findings file."""
import traceback

from . import ir
from .ir import Schema
from .runner import known_findings


def exc_info(ex):
    tb = traceback.extract_tb(ex.__traceback__)
    inner = None
    for fr in tb:
        if '/prophy/' in fr.filename or '/prophyc/' in fr.filename:
            inner = fr
    return {'type': type(ex).__name__, 'message': str(ex)[:500],
            'frame': ('%s:%d %s' % (inner.filename, inner.lineno, inner.name)) if inner else None}


def case_payload(schema, tname, val, details=None):
    return {'schema_text': schema.to_prophy(), 'schema': schema.to_json(), 'type': tname,
            'value': ir.value_to_json(val), 'details': details or {}}


def case_from_payload(payload):
    c = payload['case']
    return Schema.from_json(c['schema']), c['type'], ir.value_from_json(c['value'])


def sample(schema, tname, val, rw=None):
    s = {'schema': schema.to_prophy(), 'type': tname, 'value': ir.value_to_json(val)}
    if rw is not None:
        try:
            s['canonical_le'] = rw.encode(tname, val, '<')[0].hex()
        except Exception:
            pass
    return s


# ----------------------------------------------------------------------------------------------
# Known findings.  A failure is attributed to a finding only when (a) the finding is listed as
# open for this property in known_findings.json and (b) the predicate below - the specific
# structural trigger of the finding - holds for the failing case.  Everything else is a violation.
PREDICATES = {}


def predicate(fid):
    def deco(fn):
        PREDICATES[fid] = fn
        return fn
    return deco


def classify_known(prop, schema, rw, tname, val, bad):
    kf = known_findings()
    for fid, fn in PREDICATES.items():
        if kf.is_open(fid, prop):
            try:
                if fn(prop, schema, rw, tname, val, bad):
                    return fid
            except Exception:
                continue
    return None


def avoid_set(prop):
    """Feature names generators should steer away from, derived from open findings."""
    kf = known_findings()
    out = set()
    for fid, e in kf.open.items():
        if prop in e.get('properties', []):
            out |= set(e.get('avoid', []))
    return frozenset(out)


# ---------------------------------------------------------------------------------------------- P3
from .gen import default_reaches_nonfixed_bytes as _drnb


def _default_reaches_nonfixed_bytes(schema, tname):
    return _drnb(schema, tname)


def leaves_nonfixed_bytes_unset(schema, tname, val):
    """True if building `val` leaves a non-fixed bytes field unassigned somewhere."""
    t = schema.resolve(tname)
    if val is ir.UNSET:
        return _default_reaches_nonfixed_bytes(schema, tname)
    if isinstance(t, ir.Union):
        arm = next(a for a in t.arms if a.name == val[0])
        return leaves_nonfixed_bytes_unset(schema, arm.type, val[1])
    if not isinstance(t, ir.Struct):
        return False
    sizers = t.sizers()
    for m in t.members:
        if m.name in sizers:
            continue
        v = val.get(m.name, ir.UNSET)
        if m.is_bytes:
            if m.kind != ir.FIXARR and v is ir.UNSET:
                return True
            continue
        if v is ir.UNSET:
            if m.kind in (ir.PLAIN, ir.FIXARR) and _default_reaches_nonfixed_bytes(schema, m.type):
                return True
            continue
        if m.kind == ir.PLAIN:
            if leaves_nonfixed_bytes_unset(schema, m.type, v):
                return True
        elif m.kind == ir.OPT:
            if v is not None and leaves_nonfixed_bytes_unset(schema, m.type, v):
                return True
        else:
            if any(leaves_nonfixed_bytes_unset(schema, m.type, x) for x in v):
                return True
    return False


@predicate('P3')
def _p3(prop, schema, rw, tname, val, bad):
    det = bad[1] or {}
    ex = det.get('exception') or {}
    is_p3_exc = ex.get('type') == 'TypeError' and 'fill character' in (ex.get('message') or '') \
        and 'composite.py' in (ex.get('frame') or '')
    return (is_p3_exc or det.get('p3_text')) and leaves_nonfixed_bytes_unset(schema, tname, val)


# ---------------------------------------------------------------------------------------------- regress
def run_regress(prop, stats, check_case_fn):
    """Replay tier: saved minimal inputs of defects found earlier (and since repaired) are re-run first."""
    import glob
    import json
    import os
    from .refwire import RefWire
    from .runner import VERIF
    for path in sorted(glob.glob(os.path.join(VERIF, 'regress', prop, '*.json'))):
        with open(path) as f:
            payload = json.load(f)
        schema, tname, val = case_from_payload(payload)
        bad = check_case_fn(schema, tname, val)
        stats.notes['regress_cases'] += 1
        if bad:
            rw = RefWire(schema)
            fid = classify_known(prop, schema, rw, tname, val, bad)
            if fid:
                stats.known_finding(fid, os.path.basename(path))
            else:
                stats.violations.append({'what': 'regression input %s: %s' % (os.path.basename(path), bad[0]),
                                         'case': case_payload(schema, tname, val, bad[1])})
