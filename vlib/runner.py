"""Shared runner: CLI, parallel Hypothesis driving, statistics, evidence, replay files, known findings."""
import argparse
import re
import collections
import hashlib
import importlib
import json
import multiprocessing
import os
import sys
import time
import traceback

VERIF = os.path.dirname(os.path.dirname(os.path.abspath(__file__)))
NWORKERS = int(os.environ.get('VERIF_WORKERS', '16'))


class Violation(Exception):
    """Raised by a property body when the property is broken on the generated case."""

    def __init__(self, what, case):
        Exception.__init__(self, what)
        self.what = what
        self.case = case


class HarnessError(Exception):
    pass


def digest(*parts):
    h = hashlib.blake2b(digest_size=8)
    for p in parts:
        if isinstance(p, bytes):
            h.update(p)
        else:
            h.update(repr(p).encode())
        h.update(b'\x00')
    return h.digest()


class Stats(object):
    MAX_SAMPLES = 4

    def __init__(self):
        self.evaluations = 0
        self.nontrivial = set()
        self.classes = collections.Counter()
        self.samples = []
        self.known = collections.Counter()
        self.known_examples = {}
        self.violations = []
        self.notes = collections.Counter()
        self.errors = []

    def case(self, key, nontrivial, classes=(), sample=None):
        """Record one evaluated case.  `key` identifies it (for distinctness)."""
        self.evaluations += 1
        for c in classes:
            self.classes[c] += 1
        if nontrivial:
            d = digest(key) if not isinstance(key, bytes) else key
            if d not in self.nontrivial:
                self.nontrivial.add(d)
                if sample is not None and len(self.samples) < self.MAX_SAMPLES:
                    self.samples.append(sample() if callable(sample) else sample)

    def known_finding(self, fid, example=None):
        self.known[fid] += 1
        if example is not None and fid not in self.known_examples:
            self.known_examples[fid] = example() if callable(example) else example

    def merge(self, other):
        self.evaluations += other.evaluations
        self.nontrivial |= other.nontrivial
        self.classes.update(other.classes)
        for s in other.samples:
            if len(self.samples) < self.MAX_SAMPLES * 2:
                self.samples.append(s)
        self.known.update(other.known)
        for k, v in other.known_examples.items():
            self.known_examples.setdefault(k, v)
        self.violations.extend(other.violations)
        self.notes.update(other.notes)
        self.errors.extend(other.errors)


# ------------------------------------------------------------------------------- known findings
class KnownFindings(object):
    def __init__(self, path=None):
        path = path or os.path.join(VERIF, 'known_findings.json')
        self.open = {}
        self.fixed = []
        if os.path.exists(path):
            with open(path) as f:
                js = json.load(f)
            for e in js.get('findings', []):
                if e.get('status', 'open') == 'open':
                    self.open[e['id']] = e
            self.fixed = js.get('fixed', [])

    def is_open(self, fid, prop):
        e = self.open.get(fid)
        return bool(e) and prop in e.get('properties', [])

    def describe(self, fid):
        return self.open[fid]['what']


_kf = None


def known_findings():
    global _kf
    if _kf is None:
        _kf = KnownFindings()
    return _kf


# ------------------------------------------------------------------------------- hypothesis driving
def derive_seed(seed, widx):
    return (int(seed) * 1000003 + widx * 7919 + 17) % (2 ** 63)


def hyp_settings(max_examples, shrink=True, stateful_steps=None):
    from hypothesis import settings, HealthCheck, Phase
    phases = [Phase.explicit, Phase.generate, Phase.target]
    if shrink:
        phases.append(Phase.shrink)
    kw = dict(max_examples=max_examples, database=None, deadline=None, derandomize=False,
              report_multiple_bugs=False, suppress_health_check=list(HealthCheck), phases=phases)
    if stateful_steps:
        kw['stateful_step_count'] = stateful_steps
    return settings(**kw)


def run_given(strategy, body, seed, max_examples, stats, shrink=True):
    """Drive body(case, stats) over `strategy`; a Violation is shrunk by Hypothesis and its final,
    minimal payload is appended to stats.violations."""
    import hypothesis
    from hypothesis import given

    @hypothesis.seed(seed)
    @hyp_settings(max_examples, shrink)
    @given(strategy)
    def test(case):
        body(case, stats)

    try:
        test()
    except Violation as v:
        stats.violations.append({'what': v.what, 'case': v.case})
    except hypothesis.errors.Unsatisfiable as e:
        stats.errors.append('Unsatisfiable: %s' % e)
    except (hypothesis.errors.Flaky, hypothesis.errors.FlakyFailure) as e:
        # a failure that does not reproduce is a harness problem, never a verdict
        stats.errors.append('Flaky: %s' % str(e)[:2000])


def _worker_entry(args):
    modname, fn, widx, seed, tier, extra = args
    try:
        sys.setrecursionlimit(10000)
        mod = importlib.import_module(modname)
        stats = Stats()
        t0 = time.time()
        getattr(mod, fn)(widx, derive_seed(seed, widx), tier, stats, **extra)
        stats.notes['worker_wall_ms'] += int((time.time() - t0) * 1000)
        return stats
    except BaseException:
        s = Stats()
        s.errors.append('worker %d crashed:\n%s' % (widx, traceback.format_exc()))
        return s
    finally:
        try:
            from . import pyh
            pyh.cleanup_workroot()
        except Exception:
            pass


def run_workers(modname, fn, seed, tier, nworkers=None, extra=None):
    """Fork `nworkers` processes each running mod.fn(widx, seed_i, tier, stats)."""
    n = nworkers or NWORKERS
    jobs = [(modname, fn, i, seed, tier, extra or {}) for i in range(n)]
    total = Stats()
    if n == 1:
        total.merge(_worker_entry(jobs[0]))
        return total
    ctx = multiprocessing.get_context('fork')
    with ctx.Pool(n) as pool:
        for st in pool.imap_unordered(_worker_entry, jobs):
            total.merge(st)
    return total


# ------------------------------------------------------------------------------- evidence / replay
def write_replay(prop, payload):
    d = os.path.join(os.environ.get('VERIF_OUT', VERIF), 'replays', prop)
    os.makedirs(d, exist_ok=True)
    body = json.dumps(payload, indent=1, sort_keys=True, default=str)
    name = hashlib.sha1(body.encode()).hexdigest()[:12] + '.json'
    path = os.path.join(d, name)
    with open(path, 'w') as f:
        f.write(body)
    return os.path.relpath(path, VERIF) if path.startswith(VERIF + os.sep) else path


def write_evidence(prop, tier, seed, level, coverage, wall, violations, assumptions=()):
    ev = {
        'property_id': prop,
        'tier': tier,
        'seed': int(seed),
        'level': level,
        'coverage': coverage,
        'assumptions': list(assumptions),
        'wall_s': round(wall, 2),
        'violations': int(violations),
    }
    d = os.path.join(os.environ.get('VERIF_OUT', VERIF), 'evidence')
    os.makedirs(d, exist_ok=True)
    with open(os.path.join(d, prop + '.json'), 'w') as f:
        json.dump(ev, f, indent=1, sort_keys=True, default=str)
    return ev


def finish(prop, tier, seed, level, rule, stats, t0, assumptions=(), extra_coverage=None):
    """Common tail of every check: print KNOWN-FINDING / VIOLATION lines, write evidence, exit code."""
    kf = known_findings()
    for fid, cnt in sorted(stats.known.items()):
        print("KNOWN-FINDING: property=%s %s [%s] (%d generated cases hit it; e.g. %s)" % (
            prop, kf.describe(fid) if fid in kf.open else fid, fid, cnt,
            json.dumps(stats.known_examples.get(fid), default=str)[:300]))
    seen = set()
    nviol = 0
    for v in stats.violations:
        key = re.sub(r"\b[A-Z][A-Za-z]?\d+\b", "T", v["what"])[:120]
        if key in seen:
            continue
        seen.add(key)
        nviol += 1
        payload = {'property': prop, 'what': v['what'], 'case': v['case'], 'seed': int(seed), 'tier': tier}
        path = write_replay(prop, payload)
        print("VIOLATION property=%s replay=%s" % (prop, path))
        print("  " + v['what'][:1500].replace('\n', '\n  '))
    coverage = {
        'evaluations': stats.evaluations,
        'distinct_nontrivial': len(stats.nontrivial),
        'rule': rule,
        'samples': stats.samples[:6],
        'classes': dict(stats.classes.most_common()),
        'known_findings_hit': dict(stats.known),
        'notes': dict(stats.notes),
    }
    if extra_coverage:
        coverage.update(extra_coverage)
    write_evidence(prop, tier, seed, level, coverage, time.time() - t0, nviol, assumptions)
    if stats.errors:
        for e in stats.errors:
            sys.stderr.write("HARNESS-ERROR property=%s %s\n" % (prop, e))
        if not nviol:
            return 2
    print("%s %s: %d evaluations, %d distinct non-trivial, %d violation(s), %.1fs" % (
        prop, tier, stats.evaluations, len(stats.nontrivial), nviol, time.time() - t0))
    return 1 if nviol else 0


def main(argv=None):
    ap = argparse.ArgumentParser()
    ap.add_argument('prop')
    ap.add_argument('--tier', default=os.environ.get('VERIF_TIER', 'quick'), choices=['quick', 'thorough'])
    ap.add_argument('--seed', type=int, default=int(os.environ.get('VERIF_SEED', '1')))
    ap.add_argument('--replay')
    ap.add_argument('--workers', type=int)
    a = ap.parse_args(argv)
    global NWORKERS
    if a.workers:
        NWORKERS = a.workers
    prop = a.prop.upper()
    from . import selftest
    selftest.run()
    try:
        mod = importlib.import_module('props.' + prop.lower())
    except ImportError:
        sys.stderr.write("no such check: %s\n%s" % (prop, traceback.format_exc()))
        return 2
    try:
        if a.replay:
            with open(a.replay) as f:
                payload = json.load(f)
            return mod.replay(payload)
        return mod.run(a.tier, a.seed)
    except HarnessError as e:
        sys.stderr.write("HARNESS-ERROR property=%s %s\n" % (prop, e))
        return 2
    except Exception:
        sys.stderr.write("HARNESS-ERROR property=%s\n%s" % (prop, traceback.format_exc()))
        return 2
