#!/bin/sh
# Offline setup: third-party packages of the harness go to /verif/.deps (never into /venv).
HERE="$(cd "$(dirname "$0")" && pwd)"
cd "$HERE" || exit 1
set -e
if [ ! -d .deps/hypothesis ] || [ ! -d .deps/atheris ]; then
    rm -rf .deps
    /venv/bin/python -m pip install --quiet --no-index --find-links /opt/veriftools/wheels \
        --target .deps hypothesis atheris 2>&1 | tail -2
fi
PYTHONPATH="$HERE:$HERE/.deps" /venv/bin/python -m vlib.selftest
