#!/bin/sh
# tools/sens.sh <ID> <patch.diff> [extra check args]
# Applies a patch to a scratch copy of /repo (under /tmp), runs the check against it with VERIF_REPO,
# prints the verdict, removes the copy.  Evidence/replays of such runs go to a scratch dir, not /verif.
ID="$1"; PATCH="$(realpath "$2")"; shift 2
HERE="$(cd "$(dirname "$0")/.." && pwd)"
T="$(mktemp -d /tmp/pvmut-XXXXXX)"
trap 'rm -rf "$T"' EXIT
mkdir "$T/repo" "$T/out"
(cd /repo && git ls-files -z | xargs -0 cp --parents -t "$T/repo") || exit 2
(cd "$T/repo" && patch -p1 -s < "$PATCH") || { echo "PATCH-FAILED $PATCH"; exit 2; }
cd "$HERE"
VERIF_REPO="$T/repo" VERIF_OUT="$T/out" ./check "$ID" "$@" > "$T/log" 2>&1
RC=$?
grep -E "^(VIOLATION|KNOWN-FINDING|HARNESS)" "$T/log" | cut -c1-220 | head -5
tail -1 "$T/log" | cut -c1-200
echo "SENS $ID $(basename "$PATCH") exit=$RC"
exit 0
