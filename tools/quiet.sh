#!/bin/sh
# tools/quiet.sh [seeds...]  - every quick check on the unchanged tree at several seeds; prints non-zero exits
HERE="$(cd "$(dirname "$0")/.." && pwd)"
cd "$HERE"
SEEDS="${*:-2 3 4 5}"
OUT="${VERIF_OUT:-$(mktemp -d /tmp/pvquiet-XXXXXX)}"
export VERIF_OUT="$OUT"
for seed in $SEEDS; do
  for id in C01 C02 C03 C04 C05 C06 C07 C08 C09 C10 C11 C12 C13 C14 C15 C16 C17 C18 C19 C20; do
    VERIF_SEED=$seed ./check $id --tier quick > "$OUT/$id.$seed.log" 2>&1
    rc=$?
    echo "seed=$seed $id exit=$rc $(tail -1 "$OUT/$id.$seed.log" | cut -c1-120)"
    if [ $rc -ne 0 ]; then grep -E "^(VIOLATION|HARNESS|  )" "$OUT/$id.$seed.log" | cut -c1-300 | head -8; fi
  done
done
echo "logs in $OUT"
