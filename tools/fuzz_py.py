#!/venv/bin/python
"""atheris campaigns (thorough tiers of C06 and C13).  Run as a subprocess:

    fuzz_py.py C06|C13 <seed> <runs> <outdir> [max_total_time_s]

The semantic oracle sits inside the target.  A violation writes <outdir>/violation.json and the
process exits with status 77; a clean campaign writes <outdir>/stats.json and exits 0.
libFuzzer's -seed pins a campaign only approximately; the saved input is the reproducible unit.
"""
import json
import os
import sys
import time

HERE = os.path.dirname(os.path.dirname(os.path.abspath(__file__)))
sys.path.insert(0, HERE)
sys.path.insert(1, os.path.join(HERE, '.deps'))

import atheris  # noqa: E402

prop, seed, runs, outdir = sys.argv[1], int(sys.argv[2]), int(sys.argv[3]), sys.argv[4]
max_time = int(sys.argv[5]) if len(sys.argv) > 5 else 0
os.makedirs(outdir, exist_ok=True)

from vlib import pyh  # noqa: E402

REPO = os.path.abspath(pyh.REPO)
if REPO in sys.path:
    sys.path.remove(REPO)
sys.path.insert(0, REPO)
with atheris.instrument_imports(include=['prophy', 'prophyc', 'ply']):
    import prophy  # noqa: E402,F401
    import prophyc  # noqa: E402,F401
    import prophyc.parsers.prophy  # noqa: E402,F401
    import prophyc.parsers.isar  # noqa: E402,F401
    import prophyc.model  # noqa: E402,F401
    import prophyc.calc  # noqa: E402,F401
    import prophyc.patch  # noqa: E402,F401
    import prophyc.generators.python  # noqa: E402,F401
    import prophyc.generators.cpp  # noqa: E402,F401
    import prophyc.generators.cpp_full  # noqa: E402,F401
pyh.setup_repo()

from vlib import gen, cppcamp, runner, common  # noqa: E402
from vlib.refwire import RefWire  # noqa: E402

counters = {'execs': 0, 'accepted': 0, 'rejected': 0, 'designed': 0, 'ok': 0}
t0 = time.time()


def finish_violation(what, details):
    with open(os.path.join(outdir, 'violation.json'), 'w') as f:
        json.dump({'what': what, 'details': details, 'counters': counters}, f, indent=1, default=str)
    sys.stdout.flush()
    os._exit(77)


def write_stats():
    with open(os.path.join(outdir, 'stats.json'), 'w') as f:
        json.dump(dict(counters, wall_s=round(time.time() - t0, 1)), f)


if prop == 'C06':
    from props import c06
    opts = gen.GenOpts(avoid=common.avoid_set('C06'), big_sizes=False, max_decls=4)
    cases = cppcamp.collect_cases(gen.schema_with_values(opts, roots='all'), runner.derive_seed(seed, 0), 40)
    pool = []   # (schema, codec, tname, seeds)
    for schema, vals in cases:
        try:
            codec = pyh.PyCodec(schema)
        except Exception:
            continue
        rw = RefWire(schema)
        for tname, val in vals:
            pool.append((schema, codec, tname, [rw.encode(tname, val, e)[0] for e in '<>']))
    corpus = os.path.join(outdir, 'corpus')
    os.makedirs(corpus, exist_ok=True)
    if seed % 2 == 0:       # even seeds start from canonical encodings, odd seeds from an empty corpus
        for i, (schema, codec, tname, seeds_) in enumerate(pool[:256]):
            for j, s in enumerate(seeds_):
                with open(os.path.join(corpus, 's%d_%d' % (i, j)), 'wb') as f:
                    f.write(bytes([i % 256, j]) + s)

    def TestOneInput(data):
        counters['execs'] += 1
        if len(data) < 2 or not pool:
            return
        schema, codec, tname, _ = pool[data[0] % len(pool)]
        e = '<>'[data[1] & 1]
        payload = bytes(data[2:])
        bad = c06.check_input(schema, codec, tname, payload, e, measure_mem=(counters['execs'] % 64 == 0))
        if bad:
            finish_violation(bad[0], dict(common.case_payload(schema, tname, None, bad[1]),
                                          fault={'input': payload.hex(), 'endianness': e, 'descriptor': ['atheris']}))
        if counters['execs'] % 1000 == 0:
            write_stats()

elif prop == 'C13':
    from props import c13
    work = os.path.join(outdir, 'work')
    os.makedirs(os.path.join(work, 'out'), exist_ok=True)
    corpus = os.path.join(outdir, 'corpus')
    os.makedirs(corpus, exist_ok=True)
    if seed % 2 == 0:
        opts = gen.GenOpts(max_decls=4, big_sizes=False)
        from vlib import ir
        for i, schema in enumerate(cppcamp.collect_cases(gen.schemas(opts), runner.derive_seed(seed, 1), 24)):
            with open(os.path.join(corpus, 'p%d' % i), 'wb') as f:
                f.write(b'\x00' + schema.to_prophy().encode())
            if ir.isar_expressible(schema):
                with open(os.path.join(corpus, 'x%d' % i), 'wb') as f:
                    f.write(b'\x01' + ir.to_isar(schema.decls).encode())
        for i, frag in enumerate(c13.ISAR_FRAGMENTS):
            with open(os.path.join(corpus, 'f%d' % i), 'wb') as f:
                f.write(b'\x01' + ('<x>%s</x>' % frag).encode())

    def TestOneInput(data):
        counters['execs'] += 1
        if len(data) < 1:
            return
        mode = data[0]
        try:
            text = bytes(data[1:]).decode('utf-8')
        except UnicodeDecodeError:
            return
        isar = bool(mode & 1)
        outs = [o for b, o in ((2, '--python_out'), (4, '--cpp_out'), (8, '--cpp_full_out'), (16, '--prophy_out'))
                if mode & b] or ['--python_out']
        main = 'm.xml' if isar else 'm.prophy'
        with open(os.path.join(work, main), 'w', encoding='utf-8') as f:
            f.write(text)
        args = (['--isar'] if isar else [])
        for o in outs:
            args += [o, os.path.join(work, 'out')]
        args.append(os.path.join(work, main))
        res = c13.run_main(args)
        counters[res[0] if res[0] in counters else 'designed'] = counters.get(res[0], 0) + 1
        if res[0] == 'violation' and not c13.classify(res[2]):
            finish_violation('%s [%s]' % (res[1], res[2]),
                             {'isar': isar, 'kind': 'atheris', 'files': {main: text}, 'outs': outs, 'extra': [],
                              'patch': None, 'missing_input': False, 'bucket': res[2]})
        if counters['execs'] % 100 == 0:
            write_stats()
else:
    raise SystemExit('unknown property')

argv = [sys.argv[0], '-runs=%d' % runs, '-seed=%d' % (seed or 1), '-max_len=400', '-timeout=120',
        '-rss_limit_mb=4096', '-print_final_stats=0', '-verbosity=0', '-artifact_prefix=%s/' % outdir, corpus]
if max_time:
    argv.insert(1, '-max_total_time=%d' % max_time)
import atexit  # noqa: E402
atheris.Setup(argv, TestOneInput)
try:
    atheris.Fuzz()
finally:
    write_stats()
