#!/bin/sh
# tools/thorough.sh [ids...] - thorough tier of the given checks (default: all), one after another
HERE="$(cd "$(dirname "$0")/.." && pwd)"
cd "$HERE"
IDS="${*:-C06 C10 C11 C14 C15 C17 C13 C12 C16 C20 C08 C09 C03 C05 C18 C07 C01 C02 C04 C19}"
for id in $IDS; do
  start=$(date +%s)
  ./check $id --tier thorough > "thorough_$id.log" 2>&1
  rc=$?
  echo "$id exit=$rc $(( $(date +%s) - start ))s $(tail -1 thorough_$id.log | cut -c1-140)"
  if [ $rc -ne 0 ]; then grep -E "^(VIOLATION|HARNESS|  )" "thorough_$id.log" | cut -c1-400 | head -12; fi
done
