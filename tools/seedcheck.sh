#!/bin/sh
# tools/seedcheck.sh <ID> <dir with patch.diff + demo.*> [check ids...]
# Confirms a seeded change (suite passes, demo fails with / passes without) and runs checks against it.
ID="$1"; SRC="$2"; shift 2
CHECKS="${*:-$ID}"
HERE="$(cd "$(dirname "$0")/.." && pwd)"
T="$(mktemp -d /tmp/pvseed-XXXXXX)"
trap 'rm -rf "$T"' EXIT
mkdir "$T/repo" "$T/out"
(cd /repo && git ls-files -z | xargs -0 cp --parents -t "$T/repo") || exit 2
(cd "$T/repo" && git init -q . && git apply "$SRC/patch.diff") || { echo "PATCH-FAILED"; exit 2; }
echo "== test suite with the change"
(cd "$T/repo" && /venv/bin/python -m pytest -q -p no:cacheprovider 2>&1 | tail -1)
DEMO="$SRC/demo.py"; RUN="/venv/bin/python"
[ -f "$SRC/demo.sh" ] && { DEMO="$SRC/demo.sh"; RUN="sh"; }
echo "== demo with the change"
(cd "$T/out" && PROPHY_TREE="$T/repo" $RUN "$DEMO" > "$T/demo_with.log" 2>&1; echo "exit=$?"; tail -3 "$T/demo_with.log" | cut -c1-200)
echo "== demo without the change (/repo)"
(cd "$T/out" && PROPHY_TREE=/repo $RUN "$DEMO" > "$T/demo_without.log" 2>&1; echo "exit=$?"; tail -2 "$T/demo_without.log" | cut -c1-200)
cd "$HERE"
for c in $CHECKS; do
  echo "== check $c against the change"
  VERIF_REPO="$T/repo" VERIF_OUT="$T/out" ./check "$c" > "$T/$c.log" 2>&1
  echo "exit=$?"
  grep -E "^(VIOLATION|HARNESS)" "$T/$c.log" | cut -c1-200 | head -3
  grep -A1 -E "^VIOLATION" "$T/$c.log" | grep "^  " | cut -c1-250 | head -2
  tail -1 "$T/$c.log" | cut -c1-160
done
